#!/usr/bin/env python3
"""Rewrites, in DESIGN.md section 13, the list of fixed defects and the list of known findings from
known_findings.json (the record), and the counts in the section's first paragraph."""
import json, re, os
HERE = os.path.dirname(os.path.dirname(os.path.abspath(__file__)))
p = os.path.join(HERE, 'DESIGN.md')
s = open(p).read()
j = json.load(open(os.path.join(HERE, 'known_findings.json')))
fx = j['fixed']
bul = ''.join('* ' + re.sub(r'^fixed: ', '', f) + '\n' for f in fx)
a = s.index("**Fixed** (property, commit, what failed):")
b = s.index("**Known findings** (printed as")
s = s[:a] + "**Fixed** (property, commit, what failed):\n\n" + bul + "\n" + s[b:]
commits = set(re.search(r'property=C\d\d (\w{7})', f).group(1) for f in fx)
s = re.sub(r"by \d+ unguarded `fix:` commits \(\d+ entries below", "by %d unguarded `fix:` commits (%d entries below" % (len(commits), len(fx)), s)
s = re.sub(r"\); \d+ are recorded as known findings", "); %d are recorded as known findings" % len(j['findings']), s)
# known findings bullets: between the line after '**Known findings**' paragraph and 'Why these are not repaired'
k0 = s.index("**Known findings** (printed as")
k1 = s.index("\n\n", k0) + 2          # end of the introducing paragraph
k2 = s.index("Why these are not repaired")
kb = ''.join("* **%s** (%s): %s\n" % (f['id'], f['property'], f['what']) for f in j['findings'])
s = s[:k1] + kb + "\n" + s[k2:]
open(p, 'w').write(s)
print(len(commits), 'fix commits,', len(fx), 'fixed entries,', len(j['findings']), 'known findings')
