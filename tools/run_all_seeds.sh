#!/bin/bash
# usage: run_all_seeds.sh [tier]   -- applies every seeded change to /repo in turn, runs the quick check of
# its property (and of the properties named in meta.json's detected_by), undoes it, and prints one line
# per change.  Expects /repo to be clean.  A change marked "NOT detected" in its meta.json must pass.
set -u
TIER="${1:-quick}"
# REPO_DIR / VERIF may point at the snapshots of a background run (vp run --with-repo)
REPO="${REPO_DIR:-/repo}"; VERIF="${VERIF:-/verif}"
cd "$REPO" || exit 2
fail=0
# SEEDS_FILTER: extended regex on the seed id (e.g. '^C0[1-6]-'), to split the regression into shards
for d in "$VERIF"/seeded/*; do
    s=$(basename "$d"); prop=${s%%-*}
    if [ -n "${SEEDS_FILTER:-}" ] && ! echo "$s" | grep -Eq "$SEEDS_FILTER"; then continue; fi
    props=$(python3 - "$d/meta.json" "$prop" <<'PY'
import json,re,sys
m=json.load(open(sys.argv[1])); own=sys.argv[2]
by=m.get('detected_by','')
ps=[]
for p in re.findall(r'\bC\d\d\b',by):
    if p not in ps: ps.append(p)
if by.startswith('none'): ps=[own]
if not ps: ps=[own]
print(' '.join(ps))
PY
)
    expect_detect=1; grep -q '"history": "NOT detected' "$d/meta.json" && expect_detect=0
    grep -q '"retired":' "$d/meta.json" && expect_detect=0
    (cd "$REPO" && git apply "$d/patch.diff" 2>/dev/null) || { echo "$s: PATCH DOES NOT APPLY"; fail=1; continue; }
    got=0; where=""
    for p in $props; do
        (cd "$VERIF" && ./check "$p" "$TIER" >"$VERIF/target/seedrun.out" 2>&1); rc=$?
        if [ $rc -eq 1 ]; then got=1; where="$where $p"; fi
        if [ $rc -ge 2 ]; then where="$where $p(machinery rc=$rc)"; fi
    done
    (cd "$REPO" && git apply -R "$d/patch.diff")
    if [ $got -eq $expect_detect ]; then echo "$s: ok (detected by:${where:- none, as recorded})"; else echo "$s: UNEXPECTED (detected=$got by:$where, expected=$expect_detect)"; fail=1; fi
done
exit $fail
