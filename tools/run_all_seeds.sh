#!/bin/bash
# usage: run_all_seeds.sh [tier]   -- applies every seeded change to /repo in turn, runs the quick check of
# its property (and of the properties named in meta.json's detected_by), undoes it, and prints one line
# per change.  Expects /repo to be clean.  A change marked "NOT detected" in its meta.json must pass.
set -u
TIER="${1:-quick}"
cd /repo || exit 2
[ -z "$(git status --porcelain --untracked-files=no)" ] || { echo "repo not clean"; exit 2; }
fail=0
for d in /verif/seeded/*; do
    s=$(basename "$d"); prop=${s%%-*}
    props=$(python3 - "$d/meta.json" "$prop" <<'PY'
import json,re,sys
m=json.load(open(sys.argv[1])); own=sys.argv[2]
by=m.get('detected_by','')
ps=[]
for p in re.findall(r'\bC\d\d\b',by):
    if p not in ps: ps.append(p)
if by.startswith('none'): ps=[own]
if not ps: ps=[own]
print(' '.join(ps))
PY
)
    expect_detect=1; grep -q '"history": "NOT detected' "$d/meta.json" && expect_detect=0
    git -C /repo apply "$d/patch.diff" 2>/dev/null || { echo "$s: PATCH DOES NOT APPLY"; fail=1; continue; }
    got=0; where=""
    for p in $props; do
        (cd /verif && ./check "$p" "$TIER" >/tmp/seedrun.out 2>&1); rc=$?
        if [ $rc -eq 1 ]; then got=1; where="$where $p"; fi
        if [ $rc -ge 2 ]; then where="$where $p(machinery rc=$rc)"; fi
    done
    git -C /repo checkout -q -- .
    if [ $got -eq $expect_detect ]; then echo "$s: ok (detected by:${where:- none, as recorded})"; else echo "$s: UNEXPECTED (detected=$got by:$where, expected=$expect_detect)"; fail=1; fi
done
exit $fail
