#!/usr/bin/env python3
"""usage: store_seeds.py <hist.json>   -- copies /tmp/seedout/<ID-X>/{patch.diff,demo.rs} to /verif/seeded/<ID-X>/ and
writes meta.json from notes.json, the captured try_seed output (/tmp/seedout/<ID-X>.proc2 or .proc) and the history text."""
import json,os,shutil,re,sys
hist=json.load(open(sys.argv[1]))
base=os.popen('git -C /repo rev-parse --short HEAD').read().strip()
for s,h in hist.items():
    src=f'/tmp/seedout/{s}'; dst=f'/verif/seeded/{s}'
    os.makedirs(dst,exist_ok=True)
    shutil.copy(f'{src}/patch.diff',dst); shutil.copy(f'{src}/demo.rs',dst)
    n=json.load(open(f'{src}/notes.json'))
    pf=f'/tmp/seedout/{s}.proc2' if os.path.exists(f'/tmp/seedout/{s}.proc2') else f'/tmp/seedout/{s}.proc'
    proc=open(pf).read()
    m=re.search(r'family=(\S+) input=(.*)',proc)
    prop,var=s.split('-')
    meta={'property':prop,'variant':var}
    for k in ['summary','needs','files','suite','demo_without','demo_with']:
        if k in n: meta[k]=n[k]
    meta['confirmed_by_me']="tools/confirm_seed.sh in a scratch worktree: patch applies, suite 142 passed / only date_tests failed, demo exits non-zero with the change and 0 without"
    meta['checked_with']=f"tools/try_seed.sh /verif/seeded/{s}/patch.diff <property> quick (git apply to /repo, ./check, git checkout -- .)"
    meta['detected_by']=f"{prop} quick: family {m.group(1)}, e.g. {m.group(2)[:140]}" if m else "none"
    meta['history']=h
    meta['base_commit']=base
    json.dump(meta,open(f'{dst}/meta.json','w'),indent=1,ensure_ascii=False)
    print('stored',s,meta['detected_by'][:80])
