#!/bin/bash
# usage: confirm_seed.sh <worktree> <dir with patch.diff + demo.rs>
# Confirms in a scratch worktree: patch applies, suite still 142 passed / only date_tests failing,
# demo FAILS with the change and PASSES without it.  Leaves the worktree clean.
set -u
WT="$1"; D="$2"
cd "$WT" || exit 2
git checkout -q -- . ; rm -f examples/demo.rs
git apply --check "$D/patch.diff" || { echo "CONFIRM: patch does not apply"; exit 1; }
git apply "$D/patch.diff"
suite=$(cargo test --offline 2>&1 | grep "^test result" | head -1)
failed=$(cargo test --offline 2>&1 | grep "^test .* FAILED" | sort | tr '\n' ' ')
echo "suite with change: $suite ; failed: $failed"
mkdir -p examples; cp "$D/demo.rs" examples/demo.rs
cargo run --offline --example demo >/tmp/demo_with.out 2>&1; with=$?
echo "demo with change: exit $with : $(grep -E 'PASS|FAIL' /tmp/demo_with.out | head -2 | tr '\n' ' ')"
git checkout -q -- .
cargo run --offline --example demo >/tmp/demo_without.out 2>&1; without=$?
echo "demo without change: exit $without : $(grep -E 'PASS|FAIL' /tmp/demo_without.out | head -2 | tr '\n' ' ')"
rm -f examples/demo.rs
ok=1
echo "$suite" | grep -q "142 passed; 1 failed" || ok=0
echo "$failed" | grep -q "date_tests" || ok=0
[ $with -ne 0 ] || ok=0
[ $without -eq 0 ] || ok=0
[ $ok -eq 1 ] && echo "CONFIRMED" || echo "NOT CONFIRMED"
