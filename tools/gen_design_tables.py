#!/usr/bin/env python3
"""Regenerates the generated parts of DESIGN.md from files written by the machinery:
   - section 12.4 (families per property) from evidence/<id>.json
   - the seeded table of section 14 from seeded/*/meta.json
   Markers in DESIGN.md: <!-- BEGIN families --> ... <!-- END families -->, <!-- BEGIN seeded --> ... <!-- END seeded -->"""
import json, glob, os, re
HERE = os.path.dirname(os.path.dirname(os.path.abspath(__file__)))
p = os.path.join(HERE, 'DESIGN.md')
s = open(p).read()

def between(s, a, b, new):
    i = s.index(a) + len(a); j = s.index(b)
    return s[:i] + "\n" + new + "\n" + s[j:]

fam = []
for f in sorted(glob.glob(os.path.join(HERE, 'evidence', '*.json'))):
    e = json.load(open(f)); c = e['coverage']
    fam.append("* **%s** (%s tier of the last committed run: %d states, %d transitions, %d executions, %d evaluations)" % (e['property_id'], e['tier'], c['states'], c['transitions'], c['executions'], c['evaluations']))
    for x in c['families']:
        b = re.sub(r'\s+', ' ', x['bounds'])
        b = b.split(' -- merged breadth-first search')[0]
        if len(b) > 230: b = b[:227] + '...'
        kind = 'merged BFS' if x.get('merged') else x['mode']
        fam.append("  * `%s` (%s, %d executions): %s" % (x['name'], kind, x['executions'], b))
s = between(s, '<!-- BEGIN families -->', '<!-- END families -->', "\n".join(fam))

rows = []
for d in sorted(glob.glob(os.path.join(HERE, 'seeded', '*'))):
    m = json.load(open(os.path.join(d, 'meta.json')))
    sid = os.path.basename(d)
    needs = re.sub(r'\s+', ' ', (m.get('needs') or '')).replace('|', '/')
    if len(needs) > 150: needs = needs[:147] + '...'
    by = re.sub(r'\s+', ' ', (m.get('detected_by') or '')).replace('|', '/')
    if len(by) > 150: by = by[:147] + '...'
    hist = m.get('history', '')
    first = 'caught' if hist.startswith('detected') else ('not detected (outside the properties)' if hist.startswith('NOT') else 'missed -> strengthened')
    if m.get('retired'):
        first = 'retired: ' + m['retired']
        by = '(no longer breaks the property)'
    rows.append('| %s | %s | %s | %s |' % (sid, needs, by, first))
n = len(rows); missed = sum(1 for r in rows if 'missed ->' in r); nd = sum(1 for r in rows if 'not detected' in r); ret = sum(1 for r in rows if '| retired: ' in r)
table = ("%d changes are kept; %d are reported by a quick check on every run, %d are deliberately not detected (outside what the properties state), %d retired (a later repair of /repo made the change harmless; re-confirmed with its own demo), %d were missed when first tried and led to a strengthening.\n\n" % (n, n - nd - ret, nd, ret, missed)
         + '| seeded | what it needs to manifest | caught by | first try |\n|---|---|---|---|\n' + "\n".join(rows))
s = between(s, '<!-- BEGIN seeded -->', '<!-- END seeded -->', table)
open(p, 'w').write(s)
print('families of', len(glob.glob(os.path.join(HERE, 'evidence', '*.json'))), 'properties;', n, 'seeded changes,', missed, 'missed at first,', nd, 'not detected')
