#!/bin/bash
# usage: try_seed.sh <patch.diff> <prop> [tier]   -- applies the patch to /repo, runs the check, undoes it
set -u
P="$1"; PROP="$2"; TIER="${3:-quick}"
cd /repo || exit 2
if [ -n "$(git status --porcelain --untracked-files=no)" ]; then echo "repo not clean"; exit 2; fi
git apply "$P" || { echo "patch does not apply to /repo"; exit 2; }
cd /verif && ./check "$PROP" "$TIER" > /tmp/seed_$PROP.out 2>&1; rc=$?
cd /repo && git checkout -q -- .
echo "check $PROP $TIER exit=$rc"
grep -m3 -A4 "^VIOLATION" /tmp/seed_$PROP.out | head -18
grep "unlisted violations in total" -A6 /tmp/seed_$PROP.out | head -8
