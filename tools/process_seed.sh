#!/bin/bash
# usage: process_seed.sh <ID-X> [tier]  -- confirm in the scratch worktree /tmp/wt-<ID>, then try against /repo
set -u
S="$1"; TIER="${2:-quick}"; ID="${S%%-*}"
echo "=== $S"
/verif/tools/confirm_seed.sh /tmp/wt-$ID /tmp/seedout/$S 2>&1 | tail -4
/verif/tools/try_seed.sh /tmp/seedout/$S/patch.diff $ID $TIER 2>&1 | head -14
