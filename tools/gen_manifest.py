#!/usr/bin/env python3
"""Regenerates /verif/MANIFEST.json from the table below (keeps the 19 entries uniform)."""
import json, os, sys
HERE = os.path.dirname(os.path.dirname(os.path.abspath(__file__)))

# id -> (technique, level text, level note, design ref)
COMMON_NOTE = " Trusted base: the harness (mc/src), its clock seam (own clock_gettime), TZ=UTC, the build profile (opt-level 2, overflow checks and debug assertions on). Inputs outside the stated alphabets and bounds are not covered."
CHECKS = {
 "C01": ("bounded-exhaustive enumeration of atom sequences, rule-pattern instantiations, multi-line texts, configurations and stress shapes on the real code; oracle: returns normally (panic hook + watchdog), one slot per line, line independence",
         "Every sequence of lexical atoms up to the stated length over an alphabet with one representative per tokenizer/rule branch (incl. malformed atoms, over-long literals, multi-byte characters, unknown language tags), every configured rule pattern instantiated with typed boundary values (<= k deviations from the default), a date x duration grid, all multi-line texts over a 12-kind line pool with every LF/CRLF mix, configurations reachable through the setters, and stress shapes are executed on the real calculator; each must return within 30 s without panicking, with status true and exactly one slot per line of an independently written splitter, and slots of variable-free lines must equal the line evaluated alone. Totality bugs are shape bugs with tiny witnesses, so a complete small scope is the right strength; nothing is sampled.",
         "Non-termination is detected by a 30 s per-case horizon (reported as a violation, ends the run)." + COMMON_NOTE,
         "DESIGN.md section 6 C01"),
 "C02": ("bounded-exhaustive enumeration of expression trees/renderings on the real code vs. an f64 reference evaluator",
         "Every expression tree up to the stated leaf bound (all shapes x operators x literals x sign prefixes x 6 renderings, also as assignment right-hand sides, juxtapositions and suffixed literals) is evaluated by the real calculator and compared with an independent IEEE-754 evaluator; nothing is sampled. Shape bugs of a recursive-descent parser have small witnesses, so a complete small scope is the right strength.",
         "Reference evaluator and renderer are hand-written (mc/src/model/arith.rs); date-like quotient chains a/b/c are excluded as the statement says." + COMMON_NOTE,
         "DESIGN.md section 6 C02"),
 "C05": ("exhaustive grid enumeration of percentage phrases on the real code vs. the textbook formulas",
         "All combinations of the 10 phrase forms, both percent spellings, plain/money operand spellings (codes and symbols), operand held in a variable, and boundary-rich X/A/B/p grids (zero, negative, fractional, large) are evaluated and compared (kind, currency, amount within 1e-9) with the formulas of the statement.",
         "Grids are finite sets of doubles, not all doubles." + COMMON_NOTE,
         "DESIGN.md section 6 C05"),
 "C06": ("exhaustive enumeration of literal spellings, all ordered currency pairs, arithmetic pairs and all rate-update histories up to depth d on the real code vs. a rate-table model; plus merged explicit-state BFS over update_currency to a fixed point (all reachable rate tables)",
         "Every literal spelling of every rated currency/alias/symbol, all 32x32 ordered conversion pairs, all arithmetic pairs, and every sequence of update_currency calls up to the stated depth (each on a fresh calculator, whole probe matrix re-evaluated after every call) are compared with amount*rate(B)/rate(A) over a model table that the harness maintains itself. A second layer is an explicit-state breadth-first search over operation histories with state merging (model state + observational fingerprint of the implementation as the canonical key, every edge executed on the real code by replaying the shortest history to its source state); its states, edges, per-depth counts and whether a fixed point was reached are in the evidence (DESIGN.md section 12.2). For this property the search reaches a fixed point: every rate table reachable with the stated names and rates is visited and every update is tried in it.",
         "Rates, currency records and aliases are read from config.json (they are the specification); code/alias before the amount, n*M, M1*M2 and currencies without a rate are unspecified." + COMMON_NOTE,
         "DESIGN.md section 6 C06"),
 "C07": ("exhaustive enumeration of (value grid x digits x flags x separators x kind) on the real code vs. an exact decimal-arithmetic acceptance predicate",
         "Values are injected exactly; for every configuration in the grid the printed string is parsed and checked with exact decimal arithmetic: shape (grouping in threes, separator placement, digit count), |printed - value| <= half a unit of the last digit, sign, zero-fraction removal iff all printed digits are zero; the value grid is built per digit count from every rounding/carry/grouping boundary +-1 ulp.",
         "Which neighbour is printed on an exact binary tie and the sign of a negative value that prints as zero are unspecified; with rounding off only shape/half-unit-or-round-trip/sign are demanded." + COMMON_NOTE,
         "DESIGN.md section 6 C07"),
 "C09": ("exhaustive enumeration of date spellings, impossible dates, base-date x offset grids, date pairs and clock instants on the real code vs. an own proleptic-Gregorian calendar model",
         "Every day of the stated years in every spelling / month-name synonym / letter case / language is read and compared; every non-calendar (d, m) must be rejected; base dates x day/week/month/year offsets x +/- are compared with calendar arithmetic (unspecified where the target day does not exist); all ordered date pairs for 'A to B'; the day words under every clock day of the stated years. The calendar model is self-checked against chrono for every day of years 1..9999 at start-up.",
         "Two defects pinned by the repository's own tests (execute_21..23, execute_26) are listed as known findings with a defect model; any other deviation is reported." + COMMON_NOTE,
         "DESIGN.md section 6 C09"),
 "C10": ("exhaustive enumeration of counts x unit spellings, part lists, sums/differences, magnitudes and 'as' targets on the real code vs. a hand-written duration model",
         "Seconds value and exact printed decomposition are predicted (unit lengths and output words hand-written from the statement) for N in the stated range x every configured unit spelling of every language, all lists of 2..3 parts and ordered long lists, D1 +- D2, every magnitude in 0..top and +-1 s around every unit multiple, and 'D as U' flooring.",
         "Fractional and negative counts and 'as months|years' are unspecified." + COMMON_NOTE,
         "DESIGN.md section 6 C10"),
 "C11": ("exhaustive enumeration of time literals, all ordered zone pairs, GMT forms, default zones and durations on the real code vs. offset arithmetic modulo 24 h",
         "All hours x minute/second grids and am/pm forms under every default zone, 'T Z' for every usable zone name and GMT form, 'T Z1 to Z2' for all ordered pairs of usable zone names, T +- D, T1 to T2, and set_timezone/get_time_offset for every name and malformed names are compared with wall - offset(Z1) + offset(Z2) mod 24 h, label, offset and printed HH:MM:SS ZONE.",
         "Zone offsets are read from config.json (the configured table is the specification); zone names that are also currency codes / keywords / unit names are left out as the statement says; 12:xx am/pm is left out." + COMMON_NOTE,
         "DESIGN.md section 6 C11"),
 "C12": ("exhaustive enumeration of all same-kind unit pairs, all cross-kind pairs, round trips, triples and arithmetic pairs under several separator configurations on the real code vs. a hand-written factor table",
         "All 365 ordered same-kind pairs x amounts x separator configurations, every configured spelling, all 724 cross-kind pairs (must not convert), A->B->A and A->B->C through variables, and Q1 op Q2 / Q op n are compared (amount within 1e-9, unit identity exact) with SI/imperial/IEC factors written by hand in the harness, so wrong data in config.json is a finding.",
         "Unit spellings are read from config.json." + COMMON_NOTE,
         "DESIGN.md section 6 C12"),
 "C13": ("exhaustive enumeration of integers x source base x target base on the real code with a print/read-back round-trip oracle",
         "Every n in 0..top and 2^k-1, 2^k, 2^k+1 (k <= 62) in base 16/8/2 (digit and prefix case) must denote n; 'N [to] hex|octal|binary|decimal' from all four source bases must keep n, print prefix+digits and read back as n; fractional N converts as round(N); based literals in + - * /.",
         "Negative numbers and literals beyond i64 are outside the statement (C01 covers 'does not panic')." + COMMON_NOTE,
         "DESIGN.md section 6 C13"),
 "C14": ("exhaustive enumeration of boundary timestamps x default/explicit zones and dates on the real code vs. the calendar model, incl. the inverse through a variable",
         "'N to date' / 'N to Z' / 'N Z' for boundary-rich timestamps (0, +-1, +-86399/86400, 2^31-1, 2^31, 2^32, month starts around 1970 and 2038, leap days, 10^k, first/last second of years 1 and 9999, both signs) under four default zones: instant, zone, printed fields compared; '<date> as unix' and '<time> as unix' compared with the day-number model; 'x = N to date; x as unix' must give N digit for digit.",
         "Which instant 'D at T' denotes is not part of the statement: '<date-time> as unix' is compared with the instant of the observed date-time value." + COMMON_NOTE,
         "DESIGN.md section 6 C14"),
 "C03": ("exhaustive enumeration of straight-line programs over line alphabets on the real code (run three ways) vs. a reference environment; plus merged explicit-state BFS over programs (line appended per edge) to depth 6/10",
         "Every program up to the stated depth over 26 numeric line kinds (bindings, re-bindings through case variants, copies, self-reference, multi-word names and a look-alike concatenation, negated/adjacent uses, syntax and evaluation failures on bound and fresh names, blank and comment lines) and bind/middle/use programs for all seven value kinds is run as one LF text, one CRLF text and line by line through a re-used session; every line the reference environment (lower-cased word sequence -> value, leftmost-then-longest lookup, failing lines change nothing) predicts is compared. A second layer is an explicit-state breadth-first search over operation histories with state merging (model state + observational fingerprint of the implementation as the canonical key, every edge executed on the real code by replaying the shortest history to its source state); its states, edges, per-depth counts and whether a fixed point was reached are in the evidence (DESIGN.md section 12.2).",
         "Uses of unbound names and of names whose only assignment failed are unspecified; the model reads only the generated line forms." + COMMON_NOTE,
         "DESIGN.md section 6 C03"),
 "C04": ("exhaustive enumeration of call histories (execute sequences on one calculator; set_text/execute_session/execute sequences over two sessions) on the real code with differential oracles against fresh calculators and a per-session reference environment; plus setter/evaluation histories against a freshly configured calculator and a merged explicit-state BFS over session operations",
         "Every sequence up to the stated depth of execute(t) calls over texts that touch every shared structure, every sequence of evaluations of one line shape with different operands (to hit caches keyed by shape), every sequence of session operations over two sessions and plain evaluations, and walks that make every ordered pair of a 73-text pool neighbours on one calculator are executed; each observation (values, outputs, UI tokens) must equal that of a calculator used once, each session must behave as when its own operations are replayed alone on a fresh calculator (isolation), and slot counts/values/persistence must follow the reference environment. A second layer is an explicit-state breadth-first search over operation histories with state merging (model state + observational fingerprint of the implementation as the canonical key, every edge executed on the real code by replaying the shortest history to its source state); its states, edges, per-depth counts and whether a fixed point was reached are in the evidence (DESIGN.md section 12.2). Reconfiguration histories interleave the public setters with evaluations on one calculator and compare every evaluation with a fresh calculator that was only given the configuration in force.",
         "The property is observational: hidden state that never changes a result is invisible by design. The effect of calling execute_session twice on the same text is unspecified." + COMMON_NOTE,
         "DESIGN.md section 6 C04"),
 "C08": ("exhaustive enumeration of (corpus line x literal fillings) rendered and evaluated under all four separator conventions on the real code; differential oracle",
         "Every filling of the numeric slots of the corpus lines (arithmetic, percentage phrases, money and unit conversion/arithmetic incl. metric/imperial bridges, values through variables) with fractional and grouped literals is rendered from tags under each convention, evaluated under the matching configuration and the values compared across all conventions (all 12 ordered pairs); every literal alone must denote the intended number under its convention.",
         "Separators other than '.', ',' and empty in input, and identical decimal/thousands separators, are outside the statement." + COMMON_NOTE,
         "DESIGN.md section 6 C08"),
 "C15": ("exhaustive enumeration of (kind x value grid x separator pair x digits x language); each printed result is fed back as a new line on the real code; differential oracle",
         "For numbers, percentages, money in every currency with a configured symbol or alias, durations, times with zones, dates in and outside the clock's year, unit quantities of all 33 units and based integers the printed form is evaluated again under the same configuration and language and must print the same.",
         "Two genuine inconsistencies of configuration data / unit definitions are listed as known findings (SEK prints 'kr' which reads as DKK; '12 months' printed for 360..364 days reads as one year)." + COMMON_NOTE,
         "DESIGN.md section 6 C15"),
 "C16": ("exhaustive enumeration of (corpus line x rewriting) on the real code; differential oracle original vs rewritten",
         "Every corpus line is rewritten from its tags: every gap doubled/tripled, leading/trailing blanks, ' # text' appended and '# text' as an own line with text = every atom sequence up to length 2 (3 on a line subset) over an alphabet chosen for what the tokenizer could mistake it for, and every letter-case pattern of each keyword class (currency codes, month names, zone names, connectives, variable uses) one at a time and all at once; values must be unchanged; blank/comment-only lines must evaluate to nothing.",
         "Letter case of unit names, duration words, am/pm and atom/field syntax is not varied; TAB is not a blank." + COMMON_NOTE,
         "DESIGN.md section 6 C16"),
 "C18": ("exhaustive enumeration of registration/deletion histories on the real code vs. a model of survivors, with a differential oracle against fresh calculators replaying only the survivors; plus merged explicit-state BFS over all operations under a state constraint",
         "Every sequence up to the stated depth over add_rule (three languages, four rules incl. a declining one and a name clash), delete_rule, add_dynamic_type and add_dynamic_type_item (incl. a rejected duplicate with other codes) runs on its own calculator: every return value is compared with the model; after the last call 25 probe lines (en, tr) are compared with a fresh calculator on which only the survivors were registered in order, with the token the first matching non-declining rule returns, with a calculator without rules where no surviving rule produces a token (a declining rule leaves no trace, highlight tokens included), and with the chain arithmetic of two user families (indices 1-3 and 2-4, any registration order); a further family probes one line per built-in rule pattern of config.json after registration/deletion histories. A second layer is an explicit-state breadth-first search over operation histories with state merging (model state + observational fingerprint of the implementation as the canonical key, every edge executed on the real code by replaying the shortest history to its source state); its states, edges, per-depth counts and whether a fixed point was reached are in the evidence (DESIGN.md section 12.2).",
         "Deleting a name shared by two surviving rules is ambiguous in the statement (both outcomes accepted)." + COMMON_NOTE,
         "DESIGN.md section 6 C18"),
 "C19": ("exhaustive enumeration of lines given by meaning x synonyms x languages on the real code; differential oracle against the English counterpart",
         "Duration counts and lists, month-name dates and date arithmetic, day words and operator-word arithmetic are rendered in every non-English language with every synonym of each word (translation table built by meaning from config.json) and compared with the English counterpart (values equal; dates and durations printed with the language's own words, parsed back through its table); word-free lines must give identical slots in every language.",
         "Connectives a language does not define (tr has no 'to'/'as') and zones are outside the statement." + COMMON_NOTE,
         "DESIGN.md section 6 C19"),
 "C17": ("the atom-sequence enumeration of C01 re-run with a structural oracle on ExecuteLine.ui_tokens, plus position-tagged lines",
         "For every atom sequence within the bounds (in particular multi-byte atoms before, inside and after tokens) the UI tokens must satisfy 0 <= start < end <= number of characters, be ordered by start and never overlap; for position-tagged arithmetic lines embedded in multi-byte words and followed by a comment each literal, operator and comment must be reported with its own kind covering exactly its characters.",
         "Which kind a keyword, unit or variable gets is not checked." + COMMON_NOTE,
         "DESIGN.md section 6 C17"),
}
NOT_YET = "check not built yet in this round (work in progress, see DESIGN.md section 11)"

props = [json.loads(l) for l in open(os.path.join(HERE, "properties.jsonl"))]
checks, na = [], []
for p in props:
    pid = p["id"]
    if pid in CHECKS:
        tech, text, note, ref = CHECKS[pid]
        checks.append({
            "property_id": pid,
            "quick_cmd": f"./check {pid} quick",
            "thorough_cmd": f"./check {pid} thorough",
            "evidence_file": f"/verif/evidence/{pid}.json",
            "replay_cmd_template": f"./check {pid} --replay {{path}}",
            "engine": "mc",
            "level_claimed": {"category": "model_checking", "text": text + " Families added in later rounds (each seeded change that was missed at first named one) are not all spelled out here: the complete list of the families enumerated, with alphabets and bounds written by the enumerating code itself, is in the evidence file (coverage.families) and in DESIGN.md section 12.4; findings recorded rather than repaired are in known_findings.json and DESIGN.md section 13.", "design_ref": ref},
            "level_note": note,
            "technique": tech,
        })
    else:
        na.append({"property_id": pid, "reason": NOT_YET})

m = {
 "version": 1,
 "setup_cmd": "./check --setup",
 "hooks": {
   "guard": "smartcalc_verif",
   "enable": "RUSTFLAGS=--cfg smartcalc_verif (set by ./check); no hook exists: the harness owns the wall clock by defining clock_gettime in its own executable, pins TZ=UTC and pre-empts the log facade, so /repo needs no instrumentation",
   "baseline_off_cmd": "cd /repo && cargo test --workspace --no-fail-fast --offline",
   "source_commits": [],
   "add_only": True,
 },
 "engines": [{
   "name": "mc",
   "path": "/verif/mc",
   "serves_properties": [c["property_id"] for c in checks],
   "kind_free_text": "stateless bounded-exhaustive explorer (choice-tree DFS, optional deviation bound) that executes the real smartcalc crate through its public API and compares every execution with a reference model or a second real execution",
 }],
 "checks": checks,
 "not_applicable": na,
 "notes": "Exit codes: 0 held (KNOWN-FINDING lines for listed findings), 1 violation (VIOLATION property=<id> replay=<path>), >=2 machinery failure. Known findings: /verif/known_findings.json.",
}
json.dump(m, open(os.path.join(HERE, "MANIFEST.json"), "w"), indent=1)
print("checks:", [c["property_id"] for c in checks], "not_applicable:", len(na))
