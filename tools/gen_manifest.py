#!/usr/bin/env python3
"""Regenerates /verif/MANIFEST.json from the table below (keeps the 19 entries uniform)."""
import json, os, sys
HERE = os.path.dirname(os.path.dirname(os.path.abspath(__file__)))

# id -> (technique, level text, level note, design ref)
CHECKS = {
 "C02": ("bounded-exhaustive enumeration of expression trees/renderings on the real code vs. an f64 reference evaluator",
         "Every expression tree up to the stated leaf bound (all shapes x operators x literals x sign prefixes x 6 renderings, also as assignment right-hand sides, juxtapositions and suffixed literals) is evaluated by the real calculator and compared with an independent IEEE-754 evaluator; nothing is sampled. Shape bugs of a recursive-descent parser have small witnesses, so a complete small scope is the right strength.",
         "Reference evaluator and renderer are hand-written (mc/src/model/arith.rs); literals outside the alphabet and trees beyond the leaf bound are not covered; date-like quotient chains a/b/c are excluded as the statement says.",
         "DESIGN.md section 6 C02"),
}
NOT_YET = "check not built yet in this round (work in progress, see DESIGN.md section 11)"

props = [json.loads(l) for l in open(os.path.join(HERE, "properties.jsonl"))]
checks, na = [], []
for p in props:
    pid = p["id"]
    if pid in CHECKS:
        tech, text, note, ref = CHECKS[pid]
        checks.append({
            "property_id": pid,
            "quick_cmd": f"./check {pid} quick",
            "thorough_cmd": f"./check {pid} thorough",
            "evidence_file": f"/verif/evidence/{pid}.json",
            "replay_cmd_template": f"./check {pid} --replay {{path}}",
            "engine": "mc",
            "level_claimed": {"category": "model_checking", "text": text, "design_ref": ref},
            "level_note": note,
            "technique": tech,
        })
    else:
        na.append({"property_id": pid, "reason": NOT_YET})

m = {
 "version": 1,
 "setup_cmd": "./check --setup",
 "hooks": {
   "guard": "smartcalc_verif",
   "enable": "RUSTFLAGS=--cfg smartcalc_verif (set by ./check); no hook exists: the harness owns the wall clock by defining clock_gettime in its own executable, pins TZ=UTC and pre-empts the log facade, so /repo needs no instrumentation",
   "baseline_off_cmd": "cd /repo && cargo test --workspace --no-fail-fast --offline",
   "source_commits": [],
   "add_only": True,
 },
 "engines": [{
   "name": "mc",
   "path": "/verif/mc",
   "serves_properties": [c["property_id"] for c in checks],
   "kind_free_text": "stateless bounded-exhaustive explorer (choice-tree DFS, optional deviation bound) that executes the real smartcalc crate through its public API and compares every execution with a reference model or a second real execution",
 }],
 "checks": checks,
 "not_applicable": na,
 "notes": "Exit codes: 0 held (KNOWN-FINDING lines for listed findings), 1 violation (VIOLATION property=<id> replay=<path>), >=2 machinery failure. Known findings: /verif/known_findings.json.",
}
json.dump(m, open(os.path.join(HERE, "MANIFEST.json"), "w"), indent=1)
print("checks:", [c["property_id"] for c in checks], "not_applicable:", len(na))
