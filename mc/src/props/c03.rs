//! C03 — a text is a straight-line program: later lines see the latest binding.

use crate::explore::{Bfs, Family, Mode, Verdict};
use crate::obs::{self, Base, Run, Slot, Val};
use crate::runner::{Cfg, Ctx, Prop, Tier};
use crate::spec::spec;
use serde::{Deserialize, Serialize};
use smartcalc::Session;
use std::collections::BTreeMap;

pub struct C03;

#[derive(Clone, Debug, Serialize, Deserialize)]
pub struct Case {
    pub lines: Vec<String>,
    /// merged breadth-first layer: bound on the numeric values of the state constraint; the
    /// verdict then carries the canonical key of the environment reached
    #[serde(default, skip_serializing_if = "Option::is_none")]
    pub bfs: Option<i64>,
    /// renaming: the same program written with the plain name 'alpha beta'; the two programs
    /// must give the same slots (the reference model is not consulted)
    #[serde(default, skip_serializing_if = "Option::is_none")]
    pub plain: Option<Vec<String>>,
}

// ---- reference environment -------------------------------------------------------------

#[derive(Clone, Debug, PartialEq)]
pub enum Binding {
    Known(Val),
    /// bound (or possibly bound) to something the model does not predict
    Unknown,
}

/// name = lower-cased *word sequence* ("a b" and "ab" are different names)
pub type Env = BTreeMap<Vec<String>, Binding>;

#[derive(Clone, Debug, PartialEq)]
enum Tok {
    Num(f64),
    Word(String),
    Op(char),
    Val(Binding),
    /// anything the mini-model does not read (money, dates, units ...)
    Other(String),
}

fn lex(s: &str) -> Vec<Tok> {
    let mut out = Vec::new();
    for w in s.split_whitespace() {
        if let Ok(n) = w.replace(',', ".").parse::<f64>() {
            if w.chars().next().map(|c| c.is_ascii_digit()).unwrap_or(false) {
                out.push(Tok::Num(n));
                continue;
            }
        }
        if w.len() == 1 && "+-*/()".contains(w) {
            out.push(Tok::Op(w.chars().next().unwrap()));
        } else if w.chars().all(|c| c.is_alphabetic()) {
            out.push(Tok::Word(w.to_lowercase()));
        } else if w.starts_with('-') && w[1..].chars().all(|c| c.is_alphabetic()) && w.len() > 1 {
            out.push(Tok::Op('-'));
            out.push(Tok::Word(w[1..].to_lowercase()));
        } else {
            out.push(Tok::Other(w.to_string()));
        }
    }
    out
}

/// leftmost, then longest match of a bound name's word sequence
fn resolve(toks: Vec<Tok>, env: &Env) -> Vec<Tok> {
    let mut toks = toks;
    let mut from = 0usize;
    loop {
        let mut best: Option<(usize, usize, Binding)> = None; // (pos, len, binding)
        for pos in from..toks.len() {
            for (name, b) in env.iter() {
                if pos + name.len() > toks.len() {
                    continue;
                }
                let m = name.iter().enumerate().all(|(i, w)| matches!(&toks[pos + i], Tok::Word(x) if x == w));
                if m {
                    match &best {
                        Some((_, l, _)) if *l >= name.len() => {}
                        _ => best = Some((pos, name.len(), b.clone())),
                    }
                }
            }
            if best.is_some() {
                break;
            }
        }
        match best {
            None => return toks,
            Some((pos, len, b)) => {
                toks.splice(pos..pos + len, [Tok::Val(b)]);
                from = pos + 1;
            }
        }
    }
}

/// numeric mini-evaluator: expr := term (('+' | '-' | adjacency) term)* ; term := factor ('*' factor)* ;
/// factor := '-' factor | number | numeric value.  None = the model makes no prediction.
struct P<'a> {
    t: &'a [Tok],
    i: usize,
}
impl<'a> P<'a> {
    fn factor(&mut self) -> Option<f64> {
        match self.t.get(self.i)? {
            Tok::Op('-') => {
                self.i += 1;
                Some(-self.factor()?)
            }
            Tok::Num(n) => {
                self.i += 1;
                Some(*n)
            }
            Tok::Val(Binding::Known(Val::Number(n, _))) => {
                self.i += 1;
                Some(*n)
            }
            _ => None,
        }
    }
    fn term(&mut self) -> Option<f64> {
        let mut v = self.factor()?;
        while let Some(Tok::Op('*')) = self.t.get(self.i) {
            self.i += 1;
            v *= self.factor()?;
        }
        Some(v)
    }
    fn expr(&mut self) -> Option<f64> {
        let mut v = self.term()?;
        loop {
            match self.t.get(self.i) {
                None => return Some(v),
                Some(Tok::Op('+')) => {
                    self.i += 1;
                    v += self.term()?;
                }
                Some(Tok::Op('-')) => {
                    self.i += 1;
                    v -= self.term()?;
                }
                Some(Tok::Num(_)) | Some(Tok::Val(_)) => {
                    // operands side by side are added
                    v += self.term()?;
                }
                _ => return None,
            }
        }
    }
}

const CLOCK_DAY0: i64 = 20527; // 2026-03-15 in days since the epoch

fn rate(c: &str) -> f64 {
    spec().rates[c]
}

/// value of an expression text under env; None = no prediction
fn eval_rhs(text: &str, env: &Env) -> Option<Val> {
    let t = text.trim();
    // literals of the other kinds
    match t {
        "10%" => return Some(Val::Percent(10.0)),
        "10 usd" => return Some(Val::Money(10.0, "USD".into())),
        "3 days" => return Some(Val::Duration(3 * 86400)),
        "1/2/2021" => return Some(Val::Date { y: 2021, m: 2, d: 1, zone: "UTC".into(), off: 0 }),
        "11:30" => return Some(Val::Time { utc: CLOCK_DAY0 * 86400 + 41400, zone: "UTC".into(), off: 0 }),
        "2 km" => return Some(Val::Unit(2.0, "metric-length".into(), 7)),
        _ => {}
    }
    let toks = resolve(lex(t), env);
    // a single resolved value of any kind
    if toks.len() == 1 {
        if let Tok::Val(Binding::Known(v)) = &toks[0] {
            return Some(v.clone());
        }
    }
    // kind-specific uses: "<prefix> V" / "V <suffix>"
    if let [Tok::Num(n), Tok::Op('+'), Tok::Val(Binding::Known(Val::Percent(p)))] = toks.as_slice() {
        return Some(Val::Number(n + n / 100.0 * p, Base::Dec));
    }
    if let [Tok::Val(Binding::Known(Val::Money(a, c))), Tok::Word(to), Tok::Word(target)] = toks.as_slice() {
        if to == "to" && target == "eur" {
            let lc = c.to_lowercase();
            let v = if lc == "eur" { *a } else { a * rate("eur") / rate(&lc) };
            return Some(Val::Money(v, "EUR".into()));
        }
    }
    if let [Tok::Other(d), Tok::Op('+'), Tok::Val(Binding::Known(Val::Duration(s)))] = toks.as_slice() {
        if d == "1/1/2021" && *s == 3 * 86400 {
            return Some(Val::Date { y: 2021, m: 1, d: 4, zone: "UTC".into(), off: 0 });
        }
    }
    if let [Tok::Val(Binding::Known(Val::Time { utc, zone, off })), Tok::Op('+'), Tok::Num(one), Tok::Word(h)] = toks.as_slice() {
        if *one == 1.0 && h == "hour" {
            return Some(Val::Time { utc: utc + 3600, zone: zone.clone(), off: *off });
        }
    }
    if let [Tok::Other(d), Tok::Word(at), Tok::Val(Binding::Known(Val::Time { utc, zone, off }))] = toks.as_slice() {
        if d == "1/2/2021" && at == "at" && *off == 0 {
            // the date at the time of day the variable holds
            let day0 = 18659i64; // 2021-02-01 in days since the epoch
            return Some(Val::DateTime { utc: day0 * 86400 + utc.rem_euclid(86400), zone: zone.clone(), off: *off });
        }
    }
    if let [Tok::Val(Binding::Known(Val::Unit(a, g, i))), Tok::Word(to), Tok::Word(m)] = toks.as_slice() {
        if to == "to" && m == "m" && g == "metric-length" && *i == 7 {
            return Some(Val::Unit(a * 1000.0, "metric-length".into(), 4));
        }
    }
    // numeric expression
    if toks.iter().any(|t| matches!(t, Tok::Word(_) | Tok::Other(_) | Tok::Val(Binding::Unknown))) {
        return None;
    }
    let mut p = P { t: &toks, i: 0 };
    let v = p.expr()?;
    if p.i != toks.len() {
        return None;
    }
    Some(Val::Number(v, Base::Dec))
}

/// is the line one of the generated lines that are *meant* to fail?
fn meant_to_fail(rhs: &str) -> bool {
    let r = rhs.trim();
    r == "1 +" || r == "(" || r == "1 usd + 1 km"
}

/// model step: returns the prediction for the line's slot (None = unspecified) and updates env
pub fn step(line: &str, env: &mut Env) -> Option<Option<Val>> {
    let l = line.trim();
    if l.is_empty() || l.starts_with('#') {
        return Some(None); // must be an empty slot
    }
    if let Some((lhs, rhs)) = l.split_once('=') {
        let name: Vec<String> = lhs.split_whitespace().map(|w| w.to_lowercase()).collect();
        if meant_to_fail(rhs) {
            // a failing line leaves all existing bindings unchanged; a name that did not exist
            // may or may not exist afterwards (unspecified) -> Unknown only if it was absent
            let syntax = rhs.trim() == "1 +" || rhs.trim() == "(";
            if !syntax && !env.contains_key(&name) {
                env.insert(name, Binding::Unknown);
            }
            return None;
        }
        match eval_rhs(rhs, env) {
            Some(v) => {
                env.insert(name, Binding::Known(v.clone()));
                Some(Some(v))
            }
            None => {
                env.insert(name, Binding::Unknown);
                None
            }
        }
    } else {
        if meant_to_fail(l) {
            return None;
        }
        eval_rhs(l, env).map(Some)
    }
}

// ---- line alphabets --------------------------------------------------------------------

pub const NUM_LINES: [&str; 26] = [
    "a = 5",
    "b = 7",
    "a b = 9",
    "ab = 11",
    "A = 13",
    "b = a",
    "a = a + 1",
    "a = b + 2",
    "A B = a",
    "a",
    "a + 1",
    "2 * a b",
    "- a",
    "-a",
    "a b",
    "ab",
    "A B + b",
    "b a",
    "a = 1 +",
    "b = (",
    "a = 1 usd + 1 km",
    "b = 1 usd + 1 km",
    "1 usd + 1 km",
    "",
    "# a = 99",
    "ab + a b",
];

const KIND_BINDS: [&str; 7] = ["x = 5", "x = 10%", "x = 10 usd", "x = 3 days", "x = 1/2/2021", "x = 11:30", "x = 2 km"];
const KIND_MIDDLE: [&str; 9] = ["", "y = x", "x = x", "x = 1 +", "x = 1 usd + 1 km", "y = 10 usd", "X = 7", "# x = 1", "x y = 3"];
const KIND_USES: [&str; 10] = ["x", "y", "200 + x", "x to eur", "1/1/2021 + x", "x + 1 hour", "x to m", "x y", "2 * x", "1/2/2021 at x"];

impl Prop for C03 {
    type Case = Case;
    fn id(&self) -> &'static str {
        "C03"
    }

    fn families(&self, tier: Tier) -> Vec<Family<Case>> {
        let mut f = Vec::new();
        let d = tier.pick(3, 4);
        f.push(Family::new(
            "number-programs",
            Mode::Full,
            &format!("every program of 1..={} lines over {} line kinds (bindings, re-bindings through a case variant, copies, self-reference, multi-word names 'a b' / 'A B' and the look-alike 'ab', uses incl. negated and adjacent uses, syntax failures, evaluation failures on bound and fresh names, blank and comment lines), each run as one LF text, one CRLF text and line by line through one re-used Session", d, NUM_LINES.len()),
            move |ch| {
                let n = 1 + ch.choose(d);
                let mut lines = Vec::new();
                for _ in 0..n {
                    lines.push(ch.pick(&NUM_LINES).to_string());
                }
                Some(Case { lines, bfs: None, plain: None })
            },
        ));
        f.push(Family::new(
            "kind-programs",
            Mode::Full,
            "programs 'x = <literal of kind>' (number, percent, money, duration, date, time, unit quantity); one or two middle lines (copy, self-assignment, failing re-assignments, other binding, case variant, comment, multi-word name with prefix x); a use (x, y, 200 + x, x to eur, 1/1/2021 + x, x + 1 hour, x to m, 'x y', 2 * x)",
            move |ch| {
                let mut lines = vec![ch.pick(&KIND_BINDS).to_string()];
                lines.push(ch.pick(&KIND_MIDDLE).to_string());
                if tier == Tier::Thorough || ch.flag() {
                    lines.push(ch.pick(&KIND_MIDDLE).to_string());
                }
                lines.push(ch.pick(&KIND_USES).to_string());
                Some(Case { lines, bfs: None, plain: None })
            },
        ));
        {
            const UNI_LINES: [&str; 14] = ["ölçü = 5", "Ölçü = 7", "ÖLÇÜ = ölçü + 1", "ölçü", "Ölçü + 1", "2 * ÖLÇÜ", "цена = 4", "Цена + 1", "ЦЕНА = цена + 10", "цена", "ölçü = 1 +", "Цена = 1 usd + 1 km", "ölçü цена", "b = Ölçü"];
            let du = tier.pick(3, 4);
            f.push(Family::new(
                "unicode-name-programs",
                Mode::Full,
                &format!("every program of 1..={} lines over {} line kinds that bind, re-bind and use the non-ASCII names 'ölçü' and 'цена' in lower, Capitalised and UPPER case (simple one-to-one case pairs only; dotted/dotless i is left out), incl. failing re-bindings", du, UNI_LINES.len()),
                move |ch| {
                    let n = 1 + ch.choose(du);
                    let mut lines = Vec::new();
                    for _ in 0..n {
                        lines.push(ch.pick(&UNI_LINES).to_string());
                    }
                    Some(Case { lines, bfs: None, plain: None })
                },
            ));
        }
        {
            const LONG_LINES: [&str; 16] = ["c p u = 4", "u = 3", "c p = 2", "a b = 9", "c p u * u", "u * c p u", "c p u u", "u c p u", "c p u + c p u", "a b u", "u a b", "a b a b", "c p u", "c p u = c p u + u", "c p * u", "u = c p u"];
            let dl = tier.pick(3, 4);
            f.push(Family::new(
                "long-name-programs",
                Mode::Full,
                &format!("every program of 1..={} lines over {} line kinds with a three-word name ('c p u'), its two-word prefix ('c p'), a two-word name ('a b') and a one-word name ('u'): a multi-word name followed by an operator and another name, followed directly by another name, used twice, re-bound through itself", dl, LONG_LINES.len()),
                move |ch| {
                    let n = 1 + ch.choose(dl);
                    let mut lines = Vec::new();
                    for _ in 0..n {
                        lines.push(ch.pick(&LONG_LINES).to_string());
                    }
                    Some(Case { lines, bfs: None, plain: None })
                },
            ));
        }
        {
            const NAMES: [&str; 14] = ["lump sum", "take-home pay", "net-income", "unit times", "sum total", "a-b", "tax in", "half of it", "cost per day", "rate as of june", "tax_rate", "a_b_c", "cat food", "west wing"];
            const T_LINES: [&str; 12] = ["@ = 5", "@ = 7", "@ = @ + 5", "@ + 1", "2 * @", "x = @", "x + @", "@ = 1 +", "@", "@ = 10 usd", "@ to eur", "@ = 1 usd + 1 km"];
            let dr = tier.pick(3, 4);
            f.push(Family::new(
                "renamed-programs",
                Mode::Full,
                &format!("names that contain an operator word, a connective keyword, a month word, a hyphen, an underscore or a word that is also a time zone abbreviation ({:?}): every program of 'x = 3', a line that binds the name, and 1..={} lines over {} line kinds (bind, re-bind, re-bind through itself, uses, failing re-bindings, money) gives the same slots as the same program written with the plain name 'alpha beta'", NAMES, dr, T_LINES.len()),
                move |ch| {
                    let name = *ch.pick(&NAMES);
                    let n = 2 + ch.choose(dr);
                    let mut lines = Vec::new();
                    let mut plain = Vec::new();
                    lines.push("x = 3".to_string());
                    plain.push("x = 3".to_string());
                    for i in 0..n {
                        // the first line binds the name (what an unbound name means is no statement of C03,
                        // and a hyphen or operator word in an unbound name is an operator)
                        let t = if i == 0 { *ch.pick(&["@ = 5", "@ = 10 usd"]) } else { *ch.pick(&T_LINES) };
                        lines.push(t.replace('@', name));
                        plain.push(t.replace('@', "alpha beta"));
                    }
                    Some(Case { lines, bfs: None, plain: Some(plain) })
                },
            ));
        }
        f.push(Family::new(
            "repeated-first-word-and-notes",
            Mode::Full,
            "(a) a multi-word name used directly behind one more copy of its own first word(s) ('a a b = 7 / 2 * a a a b', 'net net income = 40 / 2 * net net net income', 'tax rate = 20 / tax tax rate + 1', 'cost per unit = 4 / cost per cost per unit * 10'): the same slots as the program written with a plain name in place of the name; (b) a name bound to money, a number or a percentage used in front of a '/word' note ('rate = $25 / rate/hour * 8'): the same slots as the line with the literal in place of the name",
            move |ch| {
                let pairs: [(&[&str], &[&str]); 10] = [
                    (&["a a b = 7", "2 * a a a b"], &["alpha beta = 7", "2 * a alpha beta"]),
                    (&["net net income = 40", "margin = 10", "2 * net net net income"], &["alpha beta = 40", "margin = 10", "2 * net alpha beta"]),
                    (&["tax rate = 20", "tax tax rate + 1"], &["alpha beta = 20", "tax alpha beta + 1"]),
                    (&["cost per unit = 4", "cost per cost per unit * 10"], &["alpha beta = 4", "cost per alpha beta * 10"]),
                    (&["a b = 3", "a b a b + a a b"], &["alpha beta = 3", "alpha beta alpha beta + a alpha beta"]),
                    (&["rate = $25", "rate/hour * 8"], &["rate = $25", "$25/hour * 8"]),
                    (&["fee = 10 eur", "fee = fee + 5 eur", "fee/month * 12"], &["fee = 10 eur", "fee = fee + 5 eur", "15 eur/month * 12"]),
                    (&["hourly rate = $40", "week = hourly rate/hour * 35", "week"], &["hourly rate = $40", "week = $40/hour * 35", "week"]),
                    (&["n = 12", "n/item * 3"], &["n = 12", "12/item * 3"]),
                    (&["p = 15%", "200 + p/year"], &["p = 15%", "200 + 15%/year"]),
                ];
                let (a, b) = *ch.pick(&pairs);
                Some(Case { lines: a.iter().map(|s| s.to_string()).collect(), bfs: None, plain: Some(b.iter().map(|s| s.to_string()).collect()) })
            },
        ));
        {
            const ZW_LINES: [&str; 12] = ["CAT food = 5", "cat food = 7", "cat food + 1", "Cat Food * 2", "CAT FOOD", "West Wing = 12", "WEST wing = 20", "west wing", "cat food = cat food + 1", "b = Cat food", "art budget = 100", "ART BUDGET = art budget + 50"];
            let dz = tier.pick(3, 4);
            f.push(Family::new(
                "zone-word-names",
                Mode::Full,
                &format!("every program of 1..={} lines over {} line kinds whose names contain a word that is also a time zone abbreviation (cat, west, art), bound and used in lower, Capitalised and UPPER case: a name is case-insensitive whatever else its words may mean", dz, ZW_LINES.len()),
                move |ch| {
                    let n = 1 + ch.choose(dz);
                    let mut lines = Vec::new();
                    for _ in 0..n {
                        lines.push(ch.pick(&ZW_LINES).to_string());
                    }
                    Some(Case { lines, bfs: None, plain: None })
                },
            ));
        }
        {
            const MONTH_LINES: [&str; 10] = ["january = 1200", "february = 1350", "january + february", "february = february + 50", "february", "january", "dec budget = 7", "dec budget + january", "2 * january", "january = february"];
            let dm = tier.pick(3, 4);
            f.push(Family::new(
                "month-word-names",
                Mode::Full,
                &format!("every program of 1..={} lines over {} line kinds whose names are month words ('january', 'february') or contain one ('dec budget'): bound, re-bound through themselves and used on lines that contain no other word", dm, MONTH_LINES.len()),
                move |ch| {
                    let n = 1 + ch.choose(dm);
                    let mut lines = Vec::new();
                    for _ in 0..n {
                        lines.push(ch.pick(&MONTH_LINES).to_string());
                    }
                    Some(Case { lines, bfs: None, plain: None })
                },
            ));
        }
        f.push(Family::new(
            "many-names",
            Mode::Full,
            "programs that bind k distinct names (k in 1..=24, Greek letter words) to 1..k, re-bind every third one to ten times its value, and then use all of them in one sum, in one product of the first five, and the last-bound one alone: the number of variables of a session does not matter",
            move |ch| {
                const NAMES: [&str; 24] = ["alpha", "beta", "gamma", "delta", "epsilon", "zeta", "eta", "theta", "iota", "kappa", "lambda", "mu", "nu", "xi", "omicron", "pi", "rho", "sigma", "tau", "upsilon", "phi", "chi", "psi", "omega"];
                let k = 1 + ch.choose(24);
                let mut lines: Vec<String> = (0..k).map(|i| format!("{} = {}", NAMES[i], i + 1)).collect();
                for i in (0..k).step_by(3) {
                    lines.push(format!("{} = {} * 10", NAMES[i], NAMES[i]));
                }
                match ch.choose(3) {
                    0 => lines.push((0..k).map(|i| NAMES[i]).collect::<Vec<_>>().join(" + ")),
                    1 => lines.push((0..k.min(5)).map(|i| NAMES[i]).collect::<Vec<_>>().join(" * ")),
                    _ => lines.push(NAMES[k - 1].to_string()),
                }
                Some(Case { lines, bfs: None, plain: None })
            },
        ));
        if tier == Tier::Thorough {
            f.push(Family::new(
                "number-programs-deep",
                Mode::Deviations(3),
                "programs of 6 lines over the number line kinds with at most 3 lines different from the background line 'a = a + 1' (first line 'a = 5')",
                move |ch| {
                    let mut lines = vec!["a = 5".to_string()];
                    for _ in 0..6 {
                        let all: Vec<&str> = std::iter::once("a = a + 1").chain(NUM_LINES.iter().cloned()).collect();
                        lines.push(ch.pick_dev(&all).to_string());
                    }
                    lines.push("a".to_string());
                    Some(Case { lines, bfs: None, plain: None })
                },
            ));
        }
        f
    }

    fn bfs_layers(&self, tier: Tier) -> Vec<Bfs<Case>> {
        let (bound, depth) = tier.pick((14i64, 6usize), (14, 10));
        vec![Bfs::new(
            "reachable-environments",
            &format!("explicit-state search over programs: an edge appends one of the {} number line kinds to the shortest program that reached a state and runs the whole program three ways (LF, CRLF, re-used session) against the reference environment; a state is the model environment (names a, b, 'a b', ab with their values) together with the fingerprint of what the names evaluate to at the end of the program; state constraint: every known value within +-{} (states beyond it are checked, not expanded); depth bound {}", NUM_LINES.len(), bound, depth),
            NUM_LINES.len(),
            depth,
            move |h| Case { lines: h.iter().map(|i| NUM_LINES[*i].to_string()).collect(), bfs: Some(bound), plain: None },
        )]
    }

    fn exec(&self, ctx: &mut Ctx, c: &Case) -> Verdict {
        if c.lines.is_empty() {
            // root of the merged layer: the empty program
            let mut v = Verdict { input: "<empty program>".into(), class: "unspecified", ..Default::default() };
            if c.bfs.is_some() {
                v.key = Some("{}".into());
            }
            return v;
        }
        if let Some(plain) = &c.plain {
            let calc = ctx.calc(&Cfg::default());
            let mut v = Verdict { input: c.lines.join(" \\n "), class: "renaming-compared", compared: true, evals: 0, ..Default::default() };
            let a = obs::eval(calc, "en", &c.lines.join("\n"));
            let b = obs::eval(calc, "en", &plain.join("\n"));
            v.evals += 2 * c.lines.len() as u64;
            v.expected = format!("{} -> {}", plain.join(" \\n "), b.brief());
            v.observed = a.brief();
            match (&a, &b) {
                (Run::Panic(p), _) | (_, Run::Panic(p)) => {
                    v.violation = Some(format!("panic: {}", p.message));
                    v.site = Some(p.site.clone());
                }
                (Run::Done(x), Run::Done(y)) => {
                    let same = x.status == y.status
                        && x.slots.len() == y.slots.len()
                        && x.slots.iter().zip(y.slots.iter()).all(|(p, q)| match (p, q) {
                            (Slot::Ok { val: va, out: oa }, Slot::Ok { val: vb, out: ob }) => obs::val_close(va, vb, 1e-12) && oa == ob,
                            (Slot::Err(_), Slot::Err(_)) | (Slot::Empty, Slot::Empty) => true,
                            _ => false,
                        });
                    if !same {
                        v.violation = Some("the program gives other slots than the same program written with a plain name".into());
                    }
                }
            }
            return v;
        }
        // model
        let mut env: Env = BTreeMap::new();
        let mut preds: Vec<Option<Option<Val>>> = Vec::new();
        for l in c.lines.iter() {
            preds.push(step(l, &mut env));
        }
        let definite = preds.iter().filter(|p| p.is_some()).count();
        let input = c.lines.join(" \\n ");
        let mut v = Verdict { input, class: if definite > 0 { "lines-compared" } else { "unspecified" }, compared: definite > 0, expected: format!("{:?}", preds), evals: 0, ..Default::default() };
        // three ways of running
        let calc = ctx.calc(&Cfg::default());
        let mut runs: Vec<(&str, Vec<Slot>)> = Vec::new();
        for (way, sep) in [("LF", "\n"), ("CRLF", "\r\n")] {
            let run = obs::eval(calc, "en", &c.lines.join(sep));
            v.evals += c.lines.len() as u64;
            match run {
                Run::Panic(p) => {
                    v.violation = Some(format!("panic ({}): {}", way, p.message));
                    v.site = Some(p.site);
                    v.observed = format!("PANIC {}", p.message);
                    return v;
                }
                Run::Done(o) => {
                    if !o.status || o.slots.len() != c.lines.len() {
                        v.violation = Some(format!("{}: status={} slots={} for {} lines", way, o.status, o.slots.len(), c.lines.len()));
                        v.observed = format!("{:?}", o.slots);
                        return v;
                    }
                    runs.push((way, o.slots));
                }
            }
        }
        {
            let mut session = Session::new();
            session.set_language("en".to_string());
            let mut slots = Vec::new();
            for l in c.lines.iter() {
                let run = obs::eval_session(calc, &mut session, Some(l));
                v.evals += 1;
                match run {
                    Run::Panic(p) => {
                        v.violation = Some(format!("panic (session): {}", p.message));
                        v.site = Some(p.site);
                        v.observed = format!("PANIC {}", p.message);
                        return v;
                    }
                    Run::Done(o) => {
                        if !o.status || o.slots.len() != 1 {
                            v.violation = Some(format!("session: status={} slots={} for one line {:?}", o.status, o.slots.len(), l));
                            v.observed = format!("{:?}", o.slots);
                            return v;
                        }
                        slots.push(o.slots[0].clone());
                    }
                }
            }
            runs.push(("session", slots));
        }
        let brief = |s: &Slot| match s {
            Slot::Empty => "-".to_string(),
            Slot::Err(e) => format!("ERR({})", e),
            Slot::Ok { val, .. } => format!("{:?}", val),
        };
        v.observed = runs.iter().map(|(w, s)| format!("{}: [{}]", w, s.iter().map(brief).collect::<Vec<_>>().join(" | "))).collect::<Vec<_>>().join(" ;; ");
        for (way, slots) in runs.iter() {
            for (i, p) in preds.iter().enumerate() {
                match p {
                    None => {}
                    Some(None) => {
                        if slots[i] != Slot::Empty {
                            v.violation = Some(format!("{}: line {} ({:?}) is blank/comment but its slot is not empty", way, i, c.lines[i]));
                            return v;
                        }
                    }
                    Some(Some(want)) => match &slots[i] {
                        Slot::Ok { val, .. } if obs::val_close(val, want, 1e-9) => {}
                        _ => {
                            v.violation = Some(format!("{}: line {} ({:?}) should be {:?}", way, i, c.lines[i], want));
                            return v;
                        }
                    },
                }
            }
        }
        if let Some(bound) = c.bfs {
            let within = env.values().all(|b| match b {
                Binding::Known(Val::Number(x, _)) => x.abs() <= bound as f64,
                _ => true,
            });
            if within {
                // what the names denote at the end of the program, on the implementation
                let probe_text = format!("{}\na\nb\na b\nab", c.lines.join("\n"));
                let fp = match obs::eval(ctx.calc(&Cfg::default()), "en", &probe_text) {
                    Run::Done(o) => format!("{:?}", &o.slots[o.slots.len().saturating_sub(4)..]),
                    Run::Panic(p) => format!("PANIC {}", p.message),
                };
                v.evals += 4;
                v.key = Some(format!("{:?}|{}", env, fp));
            }
        }
        v
    }

    fn rule(&self) -> String {
        "cases are all programs within the stated line alphabets and depths; each is run three ways (LF text, CRLF text, line by line through a re-used session); a case is non-trivial when the reference environment (map from lower-cased word sequence to value, leftmost-then-longest lookup, failing lines leave it unchanged) predicted at least one line; lines that use unbound names or names whose only assignment failed are unspecified; distinct = distinct program".into()
    }
    fn assumptions(&self) -> Vec<String> {
        vec!["the model reads only the generated line forms (numbers, + - *, unary minus, adjacency, seven literal kinds and five kind-specific uses); anything else is 'no prediction'".into()]
    }
}
