//! C11 — clock times and zones: conversion keeps the instant, arithmetic is modulo 24 h.

use super::common::{input_of, run_case, Expect, LineCase};
use crate::explore::{Family, Mode, Verdict};
use crate::obs::{self, Run, Slot, Val};
use crate::runner::{Cfg, Ctx, Prop, Tier};
use crate::seam;
use crate::spec::spec;
use serde::{Deserialize, Serialize};

pub struct C11;

#[derive(Clone, Debug, Serialize, Deserialize)]
pub enum Want {
    /// a clock time: seconds after midnight UTC (instant mod 24 h), zone label, offset minutes
    Time { utc_mod: i64, zone: String, off: i32 },
    /// a duration in seconds
    Duration(i64),
}

#[derive(Clone, Debug, Serialize, Deserialize)]
pub enum Case {
    Line { line: LineCase, want: Want },
    /// set_timezone(name) on a calculator whose zone is `before`; expected Some((NAME, offset)) or None (rejected)
    SetZone { before: String, name: String, want: Option<(String, i32)> },
    /// ONE calculator whose default zone is switched with set_timezone between evaluations
    /// (None = no call yet: the initial UTC); after every switch three time lines are evaluated
    Switch { zones: Vec<Option<String>> },
}

const DAY: i64 = 86400;

fn m(x: i64) -> i64 {
    x.rem_euclid(DAY)
}

/// default zones settable through set_timezone: (name as passed, label, offset)
fn default_zones(tier: Tier) -> Vec<(Option<&'static str>, &'static str, i32)> {
    // offsets of named zones come from the configured table (the specification here)
    let t = |n: &str| *spec().zones.get(n).unwrap_or(&0);
    let z = vec![(None, "UTC", 0), (Some("CET"), "CET", t("CET")), (Some("EST"), "EST", t("EST")), (Some("GMT+5:30"), "GMT+5:30", 330), (Some("NST"), "NST", t("NST"))];
    match tier {
        Tier::Quick => z.into_iter().take(4).collect(),
        Tier::Thorough => z,
    }
}

fn hms(h: i64, mi: i64, s: i64) -> i64 {
    h * 3600 + mi * 60 + s
}

fn cfg_tz(tz: Option<&str>) -> Cfg {
    Cfg { tz: tz.map(|s| s.to_string()), ..Default::default() }
}

fn gmt_forms() -> Vec<(String, i32)> {
    let mut v = Vec::new();
    for h in 0..=14i32 {
        v.push((format!("GMT+{}", h), h * 60));
        v.push((format!("GMT-{}", h), -h * 60));
        v.push((format!("GMT{}", h), h * 60));
        for mm in [0, 30, 45] {
            v.push((format!("GMT+{}:{:02}", h, mm), h * 60 + mm));
            v.push((format!("GMT-{}:{:02}", h, mm), -(h * 60 + mm)));
        }
    }
    v
}

fn judge_time(run: &Run, want: &Want, v: &mut Verdict) {
    // the line under test is the last line of the text
    let slot = match run {
        Run::Done(o) if o.status => o.slots.last(),
        _ => None,
    };
    match (slot, want) {
        (Some(Slot::Ok { val: Val::Time { utc, zone, off }, out }), Want::Time { utc_mod, zone: wz, off: woff }) => {
            if m(*utc) != *utc_mod {
                v.violation = Some("wrong instant (mod 24 h)".into());
            } else if zone != wz || off != woff {
                v.violation = Some("wrong zone label or offset".into());
            } else {
                let shown = m(*utc_mod + *woff as i64 * 60);
                let want_out = format!("{:02}:{:02}:{:02} {}", shown / 3600, (shown / 60) % 60, shown % 60, wz);
                if *out != want_out {
                    v.expected = format!("{} printed {:?}", v.expected, want_out);
                    v.violation = Some("wrong printed time".into());
                }
            }
        }
        (Some(Slot::Ok { val: Val::Duration(d), .. }), Want::Duration(w)) => {
            if d != w {
                v.violation = Some("wrong difference".into());
            }
        }
        (Some(Slot::Ok { val, .. }), _) => v.violation = Some(format!("wrong kind: {}", val.kind())),
        (Some(Slot::Err(e)), _) => v.violation = Some(format!("error instead of a value: {}", e)),
        _ => v.violation = Some("no value".into()),
    }
}

impl Prop for C11 {
    type Case = Case;
    fn id(&self) -> &'static str {
        "C11"
    }

    fn families(&self, tier: Tier) -> Vec<Family<Case>> {
        let mut f = Vec::new();
        let zones = spec().usable_zones();
        let nz = zones.len();
        // (a) literals under every default zone ------------------------------------------
        {
            let dz = default_zones(tier);
            f.push(Family::new(
                "literals",
                Mode::Full,
                "H:MM[:SS] for every hour 0..23 (with and without leading zero) x minutes [00, 05, 30, 59] x seconds [none, :00, :59], and am/pm forms for 1..11 ('1 pm', '1pm', '1:30 PM', '11:05 am', '1:20:30 pm', '1:20:30PM', '1:30  pm' with two blanks), under each default zone set through set_timezone",
                move |ch| {
                    let (tzset, label, off) = *ch.pick(&dz);
                    let ampm = ch.flag();
                    let (text, wall) = if !ampm {
                        let h = ch.choose(24) as i64;
                        let pad = ch.flag();
                        let mi = *ch.pick(&[0i64, 5, 30, 59]);
                        let sec = *ch.pick(&[None, Some(0i64), Some(59)]);
                        let hh = if pad { format!("{:02}", h) } else { format!("{}", h) };
                        let t = match sec {
                            None => format!("{}:{:02}", hh, mi),
                            Some(s) => format!("{}:{:02}:{:02}", hh, mi, s),
                        };
                        (t, hms(h, mi, sec.unwrap_or(0)))
                    } else {
                        let h = 1 + ch.choose(11) as i64;
                        let pm = ch.flag();
                        let form = ch.choose(7);
                        let mer = match (pm, form % 2) {
                            (true, 0) => "pm",
                            (true, _) => "PM",
                            (false, 0) => "am",
                            (false, _) => "AM",
                        };
                        let (t, mi) = match form {
                            0 => (format!("{} {}", h, mer), 0),
                            1 => (format!("{}{}", h, mer), 0),
                            2 => (format!("{}:30 {}", h, mer), 30),
                            3 => (format!("{}:05{}", h, mer), 5),
                            // seconds together with am/pm; more than one blank in front of am/pm
                            4 => (format!("{}:20:30 {}", h, mer), 20),
                            5 => (format!("{}:20:30{}", h, mer), 20),
                            _ => (format!("{}:30  {}", h, mer), 30),
                        };
                        let sec = if form == 4 || form == 5 { 30 } else { 0 };
                        (t, hms(if pm { h + 12 } else { h }, mi, sec))
                    };
                    let line = LineCase::new(text, Expect::Unspecified, "literal").with_cfg(cfg_tz(tzset));
                    Some(Case::Line { line, want: Want::Time { utc_mod: m(wall - off as i64 * 60), zone: label.to_string(), off } })
                },
            ));
        }
        // (b) T Z : anchor a wall time in a named zone -----------------------------------
        {
            let mut all: Vec<(String, i32)> = zones.clone();
            all.extend(gmt_forms());
            let dz = default_zones(tier);
            let total = all.len();
            f.push(Family::new(
                "with-zone",
                Mode::Full,
                &format!("'T Z' for every usable zone name ({} names, upper and lower case) and every GMT form GMT+h, GMT-h, GMTh, GMT+-h:mm (h 0..14, mm 00/30/45) = {} zones x times [11:30, 00:15, 23:59:59] x default zones: wall time T in zone Z whatever the default zone is", nz, total),
                move |ch| {
                    let (zname, zoff) = ch.pick(&all).clone();
                    let lower = ch.flag();
                    let (tt, wall) = *ch.pick(&[("11:30", hms(11, 30, 0)), ("00:15", hms(0, 15, 0)), ("23:59:59", hms(23, 59, 59))]);
                    let (tzset, _, _) = *ch.pick(&dz);
                    // the default zone dimension is only crossed with a subset of zones to keep the product small
                    if tzset.is_some() && !(zname.starts_with("GMT") || zname.starts_with('E') || zname.starts_with('C')) {
                        return None;
                    }
                    let shown = if lower { zname.to_lowercase() } else { zname.clone() };
                    let line = LineCase::new(format!("{} {}", tt, shown), Expect::Unspecified, "with-zone").with_cfg(cfg_tz(tzset));
                    Some(Case::Line { line, want: Want::Time { utc_mod: m(wall - zoff as i64 * 60), zone: zname.to_uppercase(), off: zoff } })
                },
            ));
        }
        // (b2) extreme default zones against far-away zone literals; seconds in front of zone
        //      names that begin with AM / PM
        f.push(Family::new(
            "far-apart-zones",
            Mode::Full,
            "default zones at the rim of the table [GMT+14, GMT+12, GMT-11, GMT-12, LINT, NZDT, SST] (set_timezone) x zone literals [SST, NUT, HAST, LINT, NZDT, GMT-12, GMT-11, GMT+14, UTC] (those the table has; default and literal can be up to 26 hours apart) x times [10:00, 0:15, 23:30]: 'T Z' and 'T Z to UTC' denote wall time T in zone Z whatever the default zone is",
            move |ch| {
                let t = |n: &str| spec().zones.get(n).copied();
                let defaults = ["GMT+14", "GMT+12", "GMT-11", "GMT-12", "LINT", "NZDT", "SST"];
                let lits: [(&str, Option<i32>); 9] = [("SST", t("SST")), ("NUT", t("NUT")), ("HAST", t("HAST")), ("LINT", t("LINT")), ("NZDT", t("NZDT")), ("GMT-12", Some(-720)), ("GMT-11", Some(-660)), ("GMT+14", Some(840)), ("UTC", Some(0))];
                let d = *ch.pick(&defaults);
                if !d.starts_with("GMT") && t(d).is_none() {
                    return None;
                }
                let (z, zo) = *ch.pick(&lits);
                let zo = zo?;
                let (tt, wall) = *ch.pick(&[("10:00", hms(10, 0, 0)), ("0:15", hms(0, 15, 0)), ("23:30", hms(23, 30, 0))]);
                let cfg = cfg_tz(Some(d));
                if ch.flag() {
                    let line = LineCase::new(format!("{} {}", tt, z), Expect::Unspecified, "far-apart").with_cfg(cfg);
                    Some(Case::Line { line, want: Want::Time { utc_mod: m(wall - zo as i64 * 60), zone: z.to_string(), off: zo } })
                } else {
                    let line = LineCase::new(format!("{} {} to UTC", tt, z), Expect::Unspecified, "far-apart").with_cfg(cfg);
                    Some(Case::Line { line, want: Want::Time { utc_mod: m(wall - zo as i64 * 60), zone: "UTC".to_string(), off: 0 } })
                }
            },
        ));
        {
            let ampm_zones: Vec<(String, i32)> = zones.iter().filter(|(n, _)| n.starts_with("AM") || n.starts_with("PM")).cloned().collect();
            let desc = format!("times with seconds, hours 0..=12 and 13, 23 ('9:15:30', '11:59:59', '0:00:01') directly in front of the zone names that begin with AM or PM {:?}: the letters belong to the zone name, not to an am/pm marker", ampm_zones.iter().map(|(n, _)| n.as_str()).collect::<Vec<_>>());
            f.push(Family::new(
                "seconds-before-am-pm-zones",
                Mode::Full,
                &desc,
                move |ch| {
                    if ampm_zones.is_empty() {
                        return None;
                    }
                    let (z, zo) = ch.pick(&ampm_zones).clone();
                    let h = *ch.pick(&[0i64, 1, 9, 11, 12, 13, 23]);
                    let (mi, sec) = *ch.pick(&[(15i64, 30i64), (59, 59), (0, 1)]);
                    let lower = ch.flag();
                    let zt = if lower { z.to_lowercase() } else { z.clone() };
                    let wall = hms(h, mi, sec);
                    let (text, want) = if ch.flag() {
                        (format!("{}:{:02}:{:02} {}", h, mi, sec, zt), Want::Time { utc_mod: m(wall - zo as i64 * 60), zone: z.clone(), off: zo })
                    } else {
                        (format!("{}:{:02}:{:02} {} to UTC", h, mi, sec, zt), Want::Time { utc_mod: m(wall - zo as i64 * 60), zone: "UTC".into(), off: 0 })
                    };
                    Some(Case::Line { line: LineCase::new(text, Expect::Unspecified, "ampm-zone"), want })
                },
            ));
        }
        f.push(Family::new(
            "zone-case-and-connectives",
            Mode::Full,
            "'T z1 CONN z2' and 'T CONN z2' for the connectives [to, in, as, into], zone names [EST, CET, IST, GMT+3, GMT-3:30] written UPPER, lower and Mixed case on either side, T in [11:30, 0:15]: the conversion does not depend on the letter case of a zone name or on the connective",
            move |ch| {
                let zs: [(&str, i32); 5] = [("EST", *spec().zones.get("EST").unwrap_or(&0)), ("CET", *spec().zones.get("CET").unwrap_or(&0)), ("IST", *spec().zones.get("IST").unwrap_or(&0)), ("GMT+3", 180), ("GMT-3:30", -210)];
                let recase = |z: &str, how: usize| match how {
                    0 => z.to_string(),
                    1 => z.to_lowercase(),
                    _ => {
                        let mut c = z.chars();
                        c.next().map(|f| f.to_uppercase().collect::<String>() + &c.as_str().to_lowercase()).unwrap_or_default()
                    }
                };
                let (z1, o1) = *ch.pick(&zs);
                let (z2, o2) = *ch.pick(&zs);
                let conn = *ch.pick(&["to", "in", "as", "into"]);
                let (c1, c2) = (ch.choose(3), ch.choose(3));
                let (tt, wall) = *ch.pick(&[("11:30", hms(11, 30, 0)), ("0:15", hms(0, 15, 0))]);
                let with_source = ch.flag();
                // "in" is also the inch: a zone-less time followed by 'in' is left out
                if !with_source && conn == "in" {
                    return None;
                }
                let (text, utc_mod) = if with_source {
                    (format!("{} {} {} {}", tt, recase(z1, c1), conn, recase(z2, c2)), m(wall - o1 as i64 * 60))
                } else {
                    (format!("{} {} {}", tt, conn, recase(z2, c2)), m(wall))
                };
                let line = LineCase::new(text, Expect::Unspecified, "zone-case");
                Some(Case::Line { line, want: Want::Time { utc_mod, zone: z2.to_string(), off: o2 } })
            },
        ));
        // (c) conversions: all ordered pairs -----------------------------------------------
        {
            let zones = zones.clone();
            let times: Vec<(&'static str, i64)> = tier.pick(vec![("11:30", hms(11, 30, 0))], vec![("11:30", hms(11, 30, 0)), ("00:15", hms(0, 15, 0)), ("23:59:59", hms(23, 59, 59))]);
            let conns: Vec<&'static str> = tier.pick(vec!["to"], vec!["to", "in", "as"]);
            f.push(Family::new(
                "convert-pairs",
                Mode::Full,
                &format!("'T Z1 to Z2' for all {}x{} ordered pairs of usable zone names x times {:?} x connectives {:?}: shown time = wall - offset(Z1) + offset(Z2) mod 24 h, label Z2, instant kept", nz, nz, times, conns),
                move |ch| {
                    let (z1, o1) = ch.pick(&zones).clone();
                    let (z2, o2) = ch.pick(&zones).clone();
                    let (tt, wall) = *ch.pick(&times);
                    let conn = *ch.pick(&conns);
                    let line = LineCase::new(format!("{} {} {} {}", tt, z1, conn, z2), Expect::Unspecified, "convert");
                    Some(Case::Line { line, want: Want::Time { utc_mod: m(wall - o1 as i64 * 60), zone: z2, off: o2 } })
                },
            ));
        }
        {
            let gmt = gmt_forms();
            let dz = default_zones(tier);
            f.push(Family::new(
                "convert-gmt-default",
                Mode::Full,
                "'T to Z2' (source = default zone) and 'T Z1 to Z2' with Z1, Z2 over GMT forms and [EST, CET, IST, NPT], under every default zone",
                move |ch| {
                    let mut zs: Vec<(String, i32)> = ["EST", "CET", "IST", "NPT"].iter().filter_map(|n| spec().zones.get(*n).map(|o| (n.to_string(), *o))).collect();
                    zs.extend(gmt.iter().filter(|(n, _)| n.contains(':') || n.ends_with('3') || n.ends_with("14") || n.ends_with('0')).cloned());
                    let (tzset, _, doff) = *ch.pick(&dz);
                    let with_src = ch.flag();
                    let (z2, o2) = ch.pick(&zs).clone();
                    let (tt, wall) = *ch.pick(&[("11:30", hms(11, 30, 0)), ("0:05", hms(0, 5, 0))]);
                    let (text, src_off) = if with_src {
                        let (z1, o1) = ch.pick(&[("EST".to_string(), *spec().zones.get("EST").unwrap_or(&0)), ("GMT+5:45".to_string(), 345), ("GMT-3:30".to_string(), -210), ("GMT3".to_string(), 180)]).clone();
                        (format!("{} {} to {}", tt, z1, z2), o1)
                    } else {
                        (format!("{} to {}", tt, z2), doff)
                    };
                    let line = LineCase::new(text, Expect::Unspecified, "convert-default").with_cfg(cfg_tz(tzset));
                    Some(Case::Line { line, want: Want::Time { utc_mod: m(wall - src_off as i64 * 60), zone: z2.to_uppercase(), off: o2 } })
                },
            ));
        }
        // (c2) chains of conversions on one line --------------------------------------------------
        {
            let dz = default_zones(tier);
            f.push(Family::new(
                "conversion-chains",
                Mode::Full,
                "'T Z0 to Z1 to Z2 ... to Zk' for k in 2..=6 over zone cycles from [EST, CET, PST, IST, JST, UTC, GMT+5:30] (every rotation) x times [9:20, 23:45] under every default zone: the shown time is the source wall time in the last zone, however many hops the line has",
                move |ch| {
                    let names = ["EST", "CET", "PST", "IST", "JST", "UTC", "GMT+5:30"];
                    let off = |n: &str| -> i32 {
                        if n == "GMT+5:30" {
                            330
                        } else {
                            *spec().zones.get(n).unwrap_or(&0)
                        }
                    };
                    let (tzset, _, _) = *ch.pick(&dz);
                    let k = 2 + ch.choose(5);
                    let rot = ch.choose(names.len());
                    let (tt, wall) = *ch.pick(&[("9:20", hms(9, 20, 0)), ("23:45", hms(23, 45, 0))]);
                    let zs: Vec<&str> = (0..=k).map(|i| names[(rot + i) % names.len()]).collect();
                    let mut text = format!("{} {}", tt, zs[0]);
                    for z in &zs[1..] {
                        text.push_str(&format!(" to {}", z));
                    }
                    let last = *zs.last().unwrap();
                    let line = LineCase::new(text, Expect::Unspecified, "chain").with_cfg(cfg_tz(tzset));
                    Some(Case::Line { line, want: Want::Time { utc_mod: m(wall - off(zs[0]) as i64 * 60), zone: last.to_string(), off: off(last) } })
                },
            ));
        }
        // (d) T +- D ------------------------------------------------------------------------
        {
            let dz = default_zones(tier);
            f.push(Family::new(
                "plus-minus-duration",
                Mode::Full,
                "T + D and T - D for T on a 12-time grid (incl. 00:00, 23:59:59) and D in [1 second, 59 minutes, 1 hour, 13 hours, 24 hours, 25 hours, 1 day, 49 hours 30 minutes, 52 weeks, 137 years, 4294967296 seconds, 80000000 minutes, 1000000 hours] (magnitudes beyond 2^31 and 2^32 seconds), 300000 years and 10^8 days (beyond the range of calendar dates), durations written as 4, 5 and 7 parts, under every default zone: the clock moves by D modulo 24 h",
                move |ch| {
                    let times: [(&str, i64); 12] = [("00:00", 0), ("0:01", 60), ("1:00", 3600), ("6:45", hms(6, 45, 0)), ("11:30", hms(11, 30, 0)), ("11:59:59", hms(11, 59, 59)), ("12:00", hms(12, 0, 0)), ("13:15", hms(13, 15, 0)), ("18:00:01", hms(18, 0, 1)), ("22:30", hms(22, 30, 0)), ("23:00", hms(23, 0, 0)), ("23:59:59", hms(23, 59, 59))];
                    let ds: [(&str, i64); 18] = [("1 second", 1), ("59 minutes", 59 * 60), ("1 hour", 3600), ("13 hours", 13 * 3600), ("24 hours", 24 * 3600), ("25 hours", 25 * 3600), ("1 day", 86400), ("49 hours 30 minutes", 49 * 3600 + 1800), ("52 weeks", 52 * 7 * 86400), ("137 years", 137 * 365 * 86400), ("4294967296 seconds", 4294967296), ("80000000 minutes", 80000000 * 60), ("1000000 hours", 1000000 * 3600), ("300000 years", 300000 * 365 * 86400), ("100000000 days", 100000000 * 86400), ("1 day 2 hours 30 minutes 15 seconds", 86400 + 7200 + 1800 + 15), ("2 weeks 1 day 3 hours 4 minutes 5 seconds", 14 * 86400 + 86400 + 3 * 3600 + 245), ("1 year 1 month 1 week 1 day 1 hour 1 minute 1 second", 365 * 86400 + 30 * 86400 + 7 * 86400 + 86400 + 3661)];
                    let (tzset, label, off) = *ch.pick(&dz);
                    let (tt, wall) = *ch.pick(&times);
                    let (dt, dv) = *ch.pick(&ds);
                    let plus = ch.flag();
                    let text = format!("{} {} {}", tt, if plus { '+' } else { '-' }, dt);
                    let moved = if plus { wall + dv } else { wall - dv };
                    let line = LineCase::new(text, Expect::Unspecified, "plus-minus").with_cfg(cfg_tz(tzset));
                    Some(Case::Line { line, want: Want::Time { utc_mod: m(moved - off as i64 * 60), zone: label.to_string(), off } })
                },
            ));
        }
        // (e) T1 to T2 -----------------------------------------------------------------------
        {
            let dz = default_zones(tier);
            f.push(Family::new(
                "difference",
                Mode::Full,
                "'T1 to T2' for all ordered pairs of a 24-time grid (every hour at a varying minute) under every default zone (so that the two wall times also lie on different UTC days): the absolute difference in seconds",
                move |ch| {
                    let grid: Vec<(String, i64)> = (0..24i64).map(|h| (format!("{}:{:02}", h, (h * 7) % 60), hms(h, (h * 7) % 60, 0))).collect();
                    let (tzset, _, _) = *ch.pick(&dz);
                    let (a, av) = ch.pick(&grid).clone();
                    let (b, bv) = ch.pick(&grid).clone();
                    let line = LineCase::new(format!("{} to {}", a, b), Expect::Unspecified, "difference").with_cfg(cfg_tz(tzset));
                    Some(Case::Line { line, want: Want::Duration((av - bv).abs()) })
                },
            ));
        }
        f.push(Family::new(
            "difference-with-zones",
            Mode::Full,
            "'T1 [Z1] to T2 [Z2]' for T in [0:30, 10:00, 12:00, 23:15] and Z in [none, EST, CET, GMT+5:30] on either side, written on one line and with both ends held in variables ('a = T1 Z1 / b = T2 Z2 / a to b'): the absolute difference of the two instants (each wall time on the clock's date in its own zone)",
            move |ch| {
                let times = [("0:30", hms(0, 30, 0)), ("10:00", hms(10, 0, 0)), ("12:00", hms(12, 0, 0)), ("23:15", hms(23, 15, 0))];
                let zs: [(&str, i64); 4] = [("", 0), ("EST", -300), ("CET", 60), ("GMT+5:30", 330)];
                let (ta, wa) = *ch.pick(&times);
                let (za, oa) = *ch.pick(&zs);
                let (tb, wb) = *ch.pick(&times);
                let (zb, ob) = *ch.pick(&zs);
                let via_vars = ch.flag();
                let side = |t: &str, z: &str| if z.is_empty() { t.to_string() } else { format!("{} {}", t, z) };
                let (a, b) = (side(ta, za), side(tb, zb));
                let text = if via_vars { format!("a = {}\nb = {}\na to b", a, b) } else { format!("{} to {}", a, b) };
                let want = ((wa - oa * 60) - (wb - ob * 60)).abs();
                let tag = if !via_vars && !za.is_empty() && !zb.is_empty() { "difference-both-zoned-inline" } else { "difference-zoned" };
                let line = LineCase::new(text, Expect::Unspecified, tag);
                Some(Case::Line { line, want: Want::Duration(want) })
            },
        ));
        // (e2) switching the default zone of a live calculator ----------------------------------
        {
            let ds = tier.pick(3, 4);
            f.push(Family::new(
                "zone-switches",
                Mode::Full,
                &format!("ONE calculator whose default zone is switched with set_timezone between evaluations: every sequence of 1..={} zones from [initial UTC (no call), CET, EST, GMT+5:30, GMT-3:30, UTC]; after every switch '11:30', '23:45 + 30 minutes', '0:15 to EST' and '3:00 to 1:30' are evaluated: wall times are read and shown in the zone in force, whatever was evaluated before the switch", ds),
                move |ch| {
                    let n = 1 + ch.choose(ds);
                    let mut zones: Vec<Option<String>> = Vec::new();
                    for i in 0..n {
                        let opts: Vec<Option<&str>> = if i == 0 { vec![None, Some("CET"), Some("EST"), Some("GMT+5:30"), Some("GMT-3:30")] } else { vec![Some("UTC"), Some("CET"), Some("EST"), Some("GMT+5:30"), Some("GMT-3:30")] };
                        zones.push(ch.pick(&opts).map(|s| s.to_string()));
                    }
                    Some(Case::Switch { zones })
                },
            ));
        }
        // (f) set_timezone / get_time_offset ----------------------------------------------
        {
            let mut names: Vec<(String, Option<(String, i32)>)> = Vec::new();
            for (n, o) in zones.iter() {
                names.push((n.clone(), Some((n.clone(), *o))));
            }
            for (n, o) in gmt_forms() {
                names.push((n.clone(), Some((n.clone(), o))));
            }
            for bad in ["XYZ", "ABCD", "", "Q", "12", "+3", "G M T"] {
                names.push((bad.to_string(), None));
            }
            f.push(Family::new(
                "set-timezone",
                Mode::Full,
                &format!("set_timezone(name) for {} names (every usable table name, every GMT form, 7 malformed names) starting from default zones UTC and CET: accepted names set (NAME, offset), rejected names return Err and leave get_time_offset() unchanged", names.len()),
                move |ch| {
                    let before = *ch.pick(&["UTC", "CET"]);
                    let (name, want) = ch.pick(&names).clone();
                    Some(Case::SetZone { before: before.to_string(), name, want })
                },
            ));
        }
        f
    }

    fn exec(&self, ctx: &mut Ctx, case: &Case) -> Verdict {
        match case {
            Case::Line { line, want } => {
                let run = run_case(ctx, line);
                let mut v = Verdict { input: input_of(line), class: "value-compared", compared: true, expected: format!("{:?}", want), observed: run.brief(), evals: 1, ..Default::default() };
                match &run {
                    Run::Panic(p) => {
                        v.violation = Some(format!("panic: {}", p.message));
                        v.site = Some(p.site.clone());
                    }
                    _ => judge_time(&run, want, &mut v),
                }
                if v.violation.is_none() {
                    for (what, cc) in super::common::contexts_of(line).iter() {
                        let r = run_case(ctx, cc);
                        v.evals += 1;
                        let mut probe = Verdict::default();
                        // the value under test is in the last slot
                        let last = match &r {
                            Run::Done(o) if o.status && !o.slots.is_empty() => Run::Done(obs::Obs { status: true, slots: vec![o.slots.last().unwrap().clone()], ui: Vec::new() }),
                            other => other.clone(),
                        };
                        if let Run::Panic(p) = &last {
                            probe.violation = Some(format!("panic: {}", p.message));
                            v.site = Some(p.site.clone());
                        } else {
                            judge_time(&last, want, &mut probe);
                        }
                        if let Some(w) = probe.violation {
                            v.input = input_of(cc);
                            v.observed = r.brief();
                            v.violation = Some(format!("{} [context: {}]", w, what));
                            break;
                        }
                    }
                }
                v
            }
            Case::Switch { zones } => {
                let mut v = Verdict { input: format!("switch default zone {:?}", zones), class: "history-compared", compared: true, expected: "after every set_timezone the wall times are read and shown in the zone in force".into(), ..Default::default() };
                let mut calc = ctx.fresh(&Cfg::default());
                let mut trace = String::new();
                for (step, z) in zones.iter().enumerate() {
                    let (label, off) = match z {
                        None => ("UTC".to_string(), 0),
                        Some(name) => {
                            if let Err(e) = calc.set_timezone(name.clone()) {
                                v.violation = Some(format!("step {}: set_timezone({:?}) rejected: {}", step, name, e));
                                return v;
                            }
                            let o = if let Some(o) = spec().zones.get(name.as_str()) { *o } else { gmt_forms().into_iter().find(|(n, _)| n == name).map(|(_, o)| o).unwrap_or(0) };
                            (name.to_uppercase(), o)
                        }
                    };
                    let est = *spec().zones.get("EST").unwrap_or(&0);
                    let lines: Vec<(String, Want)> = vec![
                        ("11:30".to_string(), Want::Time { utc_mod: m(hms(11, 30, 0) - off as i64 * 60), zone: label.clone(), off }),
                        ("23:45 + 30 minutes".to_string(), Want::Time { utc_mod: m(hms(23, 45, 0) + 1800 - off as i64 * 60), zone: label.clone(), off }),
                        ("0:15 to EST".to_string(), Want::Time { utc_mod: m(hms(0, 15, 0) - off as i64 * 60), zone: "EST".to_string(), off: est }),
                        ("3:00 to 1:30".to_string(), Want::Duration(5400)),
                    ];
                    for (text, want) in lines {
                        let run = obs::eval(&calc, "en", &text);
                        v.evals += 1;
                        let mut probe = Verdict::default();
                        if let Run::Panic(p) = &run {
                            probe.violation = Some(format!("panic: {}", p.message));
                            v.site = Some(p.site.clone());
                        } else {
                            judge_time(&run, &want, &mut probe);
                        }
                        if let Some(w) = probe.violation {
                            v.expected = format!("{:?}", want);
                            v.observed = format!("{}step {} [{}] {} -> {}", trace, step, label, text, run.brief());
                            v.violation = Some(format!("step {}: after set_timezone the line {:?}: {}", step, text, w));
                            return v;
                        }
                    }
                    trace.push_str(&format!("[{}] ok; ", label));
                }
                v.observed = trace;
                v
            }
            Case::SetZone { before, name, want } => {
                let mut v = Verdict { input: format!("[{}] set_timezone({:?})", before, name), class: "api-compared", compared: true, expected: format!("{:?}", want), evals: 1, ..Default::default() };
                let cfg = if before == "UTC" { Cfg::default() } else { cfg_tz(Some(before)) };
                let mut calc = ctx.fresh(&cfg);
                let b = calc.get_time_offset();
                let r = seam::guarded(|| calc.set_timezone(name.clone()));
                match r {
                    Err(p) => {
                        v.observed = format!("PANIC {}", p.message);
                        v.violation = Some(format!("panic: {}", p.message));
                        v.site = Some(p.site);
                    }
                    Ok(res) => {
                        let a = calc.get_time_offset();
                        v.observed = format!("{:?} -> ({}, {})", res, a.name, a.offset);
                        match want {
                            Some((n, o)) => {
                                if res.is_err() {
                                    v.violation = Some("valid zone name rejected".into());
                                } else if a.name != *n || a.offset != *o {
                                    v.violation = Some("zone accepted but offset/name wrong".into());
                                }
                            }
                            None => {
                                if res.is_ok() {
                                    v.violation = Some("malformed zone name accepted".into());
                                } else if a != b {
                                    v.violation = Some("rejected name changed the configured zone".into());
                                }
                            }
                        }
                    }
                }
                v
            }
        }
    }

    fn rule(&self) -> String {
        "cases are all combinations of time literal, zone names (table names the zone syntax can express and that are not also currency codes / keywords / unit names, plus GMT forms), default zone and duration in the stated sets; non-trivial = instant modulo 24 h, zone label, offset and printed HH:MM:SS ZONE predicted from the offset table and compared; distinct = distinct (default zone, text)".into()
    }
    fn assumptions(&self) -> Vec<String> {
        vec!["zone offsets are read from config.json (the configured table is the specification); 12:xx am/pm is left out as the statement says".into()]
    }
}
