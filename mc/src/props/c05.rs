//! C05 — percentage phrases compute the textbook formulas for numbers and money.

use super::common::{exec_line, num, Expect, LineCase};
use crate::explore::{Family, Mode, Verdict};
use crate::model::arith::guarded_div;
use crate::obs::{Base, Val};
use crate::runner::{Ctx, Prop, Tier};
use crate::spec::spec;

pub struct C05;

const XS_Q: [&str; 9] = ["40", "0", "1", "-1", "0.5", "-2.5", "200", "1234.5", "1000000"];
const XS_T: [&str; 14] = ["40", "0", "1", "-1", "0.5", "-2.5", "3", "200", "1234.5", "1000000", "0.001", "7", "99.99", "-1000"];
const PS_Q: [&str; 7] = ["6", "0", "10", "-10", "2.5", "100", "150"];
const PS_T: [&str; 10] = ["6", "0", "1", "10", "-10", "2.5", "100", "150", "0.1", "-0.5"];

/// how the operand X is written: plain number, or money in some spelling
#[derive(Clone)]
enum Operand {
    Plain,
    /// "<x> <code>"
    Code(String),
    /// symbol before the amount, e.g. "$40"
    SymbolBefore(String, String),
}

fn operand_text(x: &str, o: &Operand) -> String {
    match o {
        Operand::Plain => num(x),
        Operand::Code(c) => format!("{} {}", num(x), c),
        Operand::SymbolBefore(sym, _) => format!("{}{}", sym, num(x)),
    }
}

fn result_val(v: f64, o: &Operand) -> Val {
    match o {
        Operand::Plain => Val::Number(v, Base::Dec),
        Operand::Code(c) => Val::Money(v, c.to_uppercase()),
        Operand::SymbolBefore(_, c) => Val::Money(v, c.to_uppercase()),
    }
}

fn pct_text(p: &str, prefix_form: bool) -> String {
    if prefix_form {
        format!("%{}", num(p))
    } else {
        format!("{}%", num(p))
    }
}

impl Prop for C05 {
    type Case = LineCase;
    fn id(&self) -> &'static str {
        "C05"
    }

    fn families(&self, tier: Tier) -> Vec<Family<LineCase>> {
        let xs: Vec<&'static str> = tier.pick(XS_Q.to_vec(), XS_T.to_vec());
        let ps: Vec<&'static str> = tier.pick(PS_Q.to_vec(), PS_T.to_vec());
        let mut operands = vec![Operand::Plain];
        let codes: Vec<String> = tier.pick(vec!["usd".to_string(), "try".into(), "jpy".into()], spec().rated());
        for c in codes {
            operands.push(Operand::Code(c));
        }
        // currencies without a configured rate: a percentage of an amount needs no rate
        operands.push(Operand::Code("cad".into()));
        operands.push(Operand::Code("kwd".into()));
        operands.push(Operand::SymbolBefore("$".into(), "usd".into()));
        operands.push(Operand::SymbolBefore("€".into(), "eur".into()));
        operands.push(Operand::SymbolBefore("₺".into(), "try".into()));
        let n_ops = operands.len();
        let mut f = Vec::new();
        {
            let (xs, ps, operands) = (xs.clone(), ps.clone(), operands.clone());
            f.push(Family::new(
                "phrases",
                Mode::Full,
                &format!("8 phrase forms (X + p%, X - p%, p% of/on/off X, X of/on/off p%) x both percent spellings x X in {:?} x p in {:?} x {} operand spellings (plain, money by code, money by symbol); also with X held in a variable", xs, ps, n_ops),
                move |ch| {
                    let form = ch.choose(8);
                    let prefix = ch.flag();
                    let via_var = ch.flag();
                    let o = ch.pick(&operands).clone();
                    let x = *ch.pick(&xs);
                    let p = *ch.pick(&ps);
                    let (xv, pv) = (x.parse::<f64>().unwrap(), p.parse::<f64>().unwrap());
                    let xt = operand_text(x, &o);
                    let pt = pct_text(p, prefix);
                    let (xref, pre) = if via_var { ("v".to_string(), format!("v = {}\n", xt)) } else { (xt.clone(), String::new()) };
                    let (line, want, tag) = match form {
                        0 => (format!("{} + {}", xref, pt), xv + guarded_div(xv, 100.0) * pv, "X + p%"),
                        1 => (format!("{} - {}", xref, pt), xv - guarded_div(xv, 100.0) * pv, "X - p%"),
                        2 => (format!("{} of {}", pt, xref), xv * pv / 100.0, "p% of X"),
                        3 => (format!("{} of {}", xref, pt), xv * pv / 100.0, "X of p%"),
                        4 => (format!("{} on {}", pt, xref), xv * (1.0 + pv / 100.0), "p% on X"),
                        5 => (format!("{} on {}", xref, pt), xv * (1.0 + pv / 100.0), "X on p%"),
                        6 => (format!("{} off {}", pt, xref), xv * (1.0 - pv / 100.0), "p% off X"),
                        _ => (format!("{} off {}", xref, pt), xv * (1.0 - pv / 100.0), "X off p%"),
                    };
                    Some(LineCase::new(format!("{}{}", pre, line), Expect::Value(result_val(want, &o), 1e-9), tag))
                },
            ));
        }
        f.push(Family::new(
            "detached-sign-and-fine-amounts",
            Mode::Full,
            "(a) a percentage behind a detached sign ('200 + - 10%', '200 - - 10%', '$200 + - 10%', '200 - + 10%'): the sign negates the percentage; (b) 'A is p% of what' and 'A is what % of B' for money amounts with three significant fraction digits ('1,125 kwd', '0,375 bhd', '2,004 omr', '$0,125', '0,005 usd') and p in [50, 25, 10]",
            move |ch| {
                if ch.flag() {
                    let (xt, xv, cur) = *ch.pick(&[("200", 200.0, None), ("$200", 200.0, Some("USD")), ("1.000 try", 1000.0, Some("TRY")), ("0,5", 0.5, None)]);
                    let (pt, pv) = *ch.pick(&[("10%", 10.0), ("%5", 5.0), ("12,5%", 12.5)]);
                    let (ops, sign) = *ch.pick(&[("+ -", -1.0), ("- -", 1.0), ("- +", -1.0), ("+ +", 1.0)]);
                    let want = xv + sign * xv / 100.0 * pv;
                    let val = match cur {
                        Some(c) => Val::Money(want, c.to_string()),
                        None => Val::Number(want, Base::Dec),
                    };
                    Some(LineCase::new(format!("{} {} {}", xt, ops, pt), Expect::Value(val, 1e-9), "detached sign"))
                } else {
                    let (at, av, cur) = *ch.pick(&[("1,125 kwd", 1.125, "KWD"), ("0,375 bhd", 0.375, "BHD"), ("2,004 omr", 2.004, "OMR"), ("$0,125", 0.125, "USD"), ("0,005 usd", 0.005, "USD")]);
                    let (pt, pv) = *ch.pick(&[("50%", 50.0), ("%25", 25.0), ("10%", 10.0)]);
                    if ch.flag() {
                        Some(LineCase::new(format!("{} is {} of what", at, pt), Expect::Value(Val::Money(100.0 * av / pv, cur.to_string()), 1e-9), "fine amount"))
                    } else {
                        Some(LineCase::new(format!("{} is what % of {}", at, at), Expect::Value(Val::Percent(100.0), 1e-9), "fine amount"))
                    }
                }
            },
        ));
        f.push(Family::new(
            "grouped-percentages",
            Mode::Full,
            "percentages of 1000 and more written with the thousands separator and without a fraction ('1.000%', '%2.500', '-1.000%', '1.000.000%', also '1.234,5%'): the 8 phrase forms over X in [200, 0,5, 80 eur, $40] x both percent spellings",
            move |ch| {
                let (pt0, pv) = *ch.pick(&[("1.000", 1000.0), ("2.500", 2500.0), ("-1.000", -1000.0), ("1.000.000", 1e6), ("1.234,5", 1234.5)]);
                let pt = if ch.flag() { format!("%{}", pt0) } else { format!("{}%", pt0) };
                let (xt, xv, cur) = *ch.pick(&[("200", 200.0, None), ("0,5", 0.5, None), ("80 eur", 80.0, Some("EUR")), ("$40", 40.0, Some("USD"))]);
                let val = |v: f64| match cur {
                    Some(c) => Val::Money(v, c.to_string()),
                    None => Val::Number(v, Base::Dec),
                };
                let (line, want) = match ch.choose(8) {
                    0 => (format!("{} + {}", xt, pt), xv + xv / 100.0 * pv),
                    1 => (format!("{} - {}", xt, pt), xv - xv / 100.0 * pv),
                    2 => (format!("{} of {}", pt, xt), xv * pv / 100.0),
                    3 => (format!("{} of {}", xt, pt), xv * pv / 100.0),
                    4 => (format!("{} on {}", pt, xt), xv * (1.0 + pv / 100.0)),
                    5 => (format!("{} on {}", xt, pt), xv * (1.0 + pv / 100.0)),
                    6 => (format!("{} off {}", pt, xt), xv * (1.0 - pv / 100.0)),
                    _ => (format!("{} off {}", xt, pt), xv * (1.0 - pv / 100.0)),
                };
                Some(LineCase::new(line, Expect::Value(val(want), 1e-9), "grouped-percentages"))
            },
        ));
        f.push(Family::new(
            "suffixed-money",
            Mode::Full,
            "the 8 phrase forms and 'A is p% of what' / 'A is what % of B' with X (A, B) a money literal that carries a magnitude suffix: '2k <code>', '1,5M <code>', '<symbol>2k', '2k <symbol>' over the codes [usd, try, eur] (rated) and [kwd, cad, aed] (no configured rate; a percentage of an amount needs none) x p in [10, 12,5, 150] x both percent spellings",
            move |ch| {
                let (xt0, xv) = *ch.pick(&[("2k", 2000.0), ("1,5M", 1_500_000.0)]);
                let (code, sym) = *ch.pick(&[("usd", Some("$")), ("try", Some("₺")), ("eur", Some("€")), ("kwd", None), ("cad", None), ("aed", None)]);
                let xt = match ch.choose(3) {
                    0 => format!("{} {}", xt0, code),
                    1 => format!("{}{}", sym?, xt0),
                    _ => format!("{} {}", xt0, sym?),
                };
                let (p, pv) = *ch.pick(&[("10", 10.0), ("12,5", 12.5), ("150", 150.0)]);
                let pt = pct_text(&p.replace(',', "."), ch.flag());
                let money = |v: f64| Val::Money(v, code.to_uppercase());
                let (line, want) = match ch.choose(10) {
                    0 => (format!("{} + {}", xt, pt), money(xv + xv / 100.0 * pv)),
                    1 => (format!("{} - {}", xt, pt), money(xv - xv / 100.0 * pv)),
                    2 => (format!("{} of {}", pt, xt), money(xv * pv / 100.0)),
                    3 => (format!("{} of {}", xt, pt), money(xv * pv / 100.0)),
                    4 => (format!("{} on {}", pt, xt), money(xv * (1.0 + pv / 100.0))),
                    5 => (format!("{} on {}", xt, pt), money(xv * (1.0 + pv / 100.0))),
                    6 => (format!("{} off {}", pt, xt), money(xv * (1.0 - pv / 100.0))),
                    7 => (format!("{} off {}", xt, pt), money(xv * (1.0 - pv / 100.0))),
                    8 => (format!("{} is {} of what", xt, pt), money(100.0 * xv / pv)),
                    _ => (format!("{} is what % of 8k {}", xt, code), Val::Percent(100.0 * xv / 8000.0)),
                };
                Some(LineCase::new(line, Expect::Value(want, 1e-9), "suffixed-money"))
            },
        ));
        {
            let (xs, ps, operands) = (xs.clone(), ps.clone(), operands.clone());
            f.push(Family::new(
                "glued-signs",
                Mode::Full,
                "'X + p%' and 'X - p%' in 6 spacings ('X -p%', 'X-p%', 'X- p%' and the same with +) x both percent spellings x operand spellings x the X grid x the non-negative p grid: the value does not depend on the spacing around the operator",
                move |ch| {
                    let plus = ch.flag();
                    let spacing = ch.choose(3);
                    let prefix = ch.flag();
                    let o = ch.pick(&operands).clone();
                    let x = *ch.pick(&xs);
                    let p = *ch.pick(&ps);
                    if p.starts_with('-') {
                        return None;
                    }
                    let (xv, pv) = (x.parse::<f64>().unwrap(), p.parse::<f64>().unwrap());
                    let op = if plus { "+" } else { "-" };
                    let glue = match spacing {
                        0 => format!(" {}", op),
                        1 => op.to_string(),
                        _ => format!("{} ", op),
                    };
                    let line = format!("{}{}{}", operand_text(x, &o), glue, pct_text(p, prefix));
                    let want = if plus { xv + guarded_div(xv, 100.0) * pv } else { xv - guarded_div(xv, 100.0) * pv };
                    Some(LineCase::new(line, Expect::Value(result_val(want, &o), 1e-9), if plus { "X +p%" } else { "X -p%" }))
                },
            ));
        }
        {
            let (xs, ps, operands) = (xs.clone(), ps.clone(), operands.clone());
            f.push(Family::new(
                "what-percent",
                Mode::Full,
                "'A is what % of B' (percentage 100*A/B) and 'A is p% of what' (100*A/p, money if A is money) over the same operand grids; zero divisor yields 0",
                move |ch| {
                    let which = ch.choose(2);
                    let o = ch.pick(&operands).clone();
                    let a = *ch.pick(&xs);
                    let av = a.parse::<f64>().unwrap();
                    if which == 0 {
                        let b = *ch.pick(&xs);
                        let bv = b.parse::<f64>().unwrap();
                        let line = format!("{} is what % of {}", operand_text(a, &o), operand_text(b, &o));
                        Some(LineCase::new(line, Expect::Value(Val::Percent(guarded_div(100.0 * av, bv)), 1e-9), "A is what % of B"))
                    } else {
                        let prefix = ch.flag();
                        let p = *ch.pick(&ps);
                        let pv = p.parse::<f64>().unwrap();
                        let line = format!("{} is {} of what", operand_text(a, &o), pct_text(p, prefix));
                        Some(LineCase::new(line, Expect::Value(result_val(guarded_div(100.0 * av, pv), &o), 1e-9), "A is p% of what"))
                    }
                },
            ));
        }
        f
    }

    fn exec(&self, ctx: &mut Ctx, case: &LineCase) -> Verdict {
        exec_line(ctx, case)
    }

    fn rule(&self) -> String {
        "cases are all combinations of phrase form, percent spelling, operand spelling and the X/p grids; non-trivial = the textbook formula predicted a value (kind, currency, amount within 1e-9 relative) that was compared; distinct = distinct input text".into()
    }
    fn assumptions(&self) -> Vec<String> {
        vec!["formulas evaluated in f64; tolerance 1e-9 relative so that algebraically equivalent implementations pass".into()]
    }
}
