//! Shared case shape for the "evaluate one text, compare the last slot" properties.

use crate::explore::Verdict;
use crate::obs::{self, Run, Slot, Val};
use crate::runner::{Cfg, Ctx};
use crate::seam;
use serde::{Deserialize, Serialize};

#[derive(Clone, Debug, Serialize, Deserialize)]
pub enum Expect {
    /// last slot is Ok with this value (floats within the relative tolerance)
    Value(Val, f64),
    /// last slot is Ok with this value and exactly this printed form
    ValueOut(Val, String, f64),
    /// last slot is Ok and prints exactly this
    Output(String),
    /// the model makes no prediction: the evaluation only has to return normally
    Unspecified,
    /// last slot must not be an Ok value of this kind
    NotKind(String),
}

#[derive(Clone, Debug, Serialize, Deserialize)]
pub struct LineCase {
    #[serde(default)]
    pub cfg: Cfg,
    pub lang: String,
    /// harness clock (epoch seconds); None = default instant
    #[serde(default)]
    pub now: Option<i64>,
    /// the text (may have several lines; the expectation is about the last slot)
    pub text: String,
    pub expect: Expect,
    /// generator tag (phrase kind ...) for reports
    #[serde(default)]
    pub tag: String,
    /// C13 arithmetic: expected numeric value when the result's base is not prescribed
    #[serde(default, skip_serializing_if = "Option::is_none")]
    pub number_any_base: Option<f64>,
}

impl LineCase {
    pub fn with_number(mut self, n: f64) -> LineCase {
        self.number_any_base = Some(n);
        self
    }
    pub fn with_cfg(mut self, cfg: Cfg) -> LineCase {
        self.cfg = cfg;
        self
    }
    pub fn with_lang(mut self, lang: &str) -> LineCase {
        self.lang = lang.into();
        self
    }
    pub fn with_now(mut self, now: i64) -> LineCase {
        self.now = Some(now);
        self
    }
    pub fn new(text: String, expect: Expect, tag: &str) -> LineCase {
        LineCase { cfg: Cfg::default(), lang: "en".into(), now: None, text, expect, tag: tag.into(), number_any_base: None }
    }
}

pub fn input_of(c: &LineCase) -> String {
    let mut s = String::new();
    if c.cfg != Cfg::default() {
        s.push_str(&format!("[{}]", serde_json::to_string(&c.cfg).unwrap()));
    }
    if c.lang != "en" {
        s.push_str(&format!("[{}]", c.lang));
    }
    if let Some(n) = c.now {
        s.push_str(&format!("[now={}]", n));
    }
    s.push_str(&c.text);
    s
}

pub fn run_case(ctx: &mut Ctx, c: &LineCase) -> Run {
    seam::set_now(c.now.unwrap_or(seam::DEFAULT_NOW));
    let r = obs::eval(ctx.calc(&c.cfg), &c.lang, &c.text);
    seam::set_now(seam::DEFAULT_NOW);
    r
}

/// Compare the last slot of `run` with `expect`.
pub fn judge(c: &LineCase, run: &Run) -> Verdict {
    let mut v = Verdict { input: input_of(c), observed: run.brief(), evals: 1, ..Default::default() };
    let nlines = c.text.split('\n').count();
    let obs = match run {
        Run::Panic(p) => {
            v.class = "panic";
            v.compared = !matches!(c.expect, Expect::Unspecified);
            v.violation = Some(format!("panic: {}", p.message));
            v.site = Some(p.site.clone());
            return v;
        }
        Run::Done(o) => o,
    };
    if !obs.status || obs.slots.len() != nlines {
        v.class = "shape";
        v.compared = true;
        v.violation = Some(format!("status={} slots={} for {} lines", obs.status, obs.slots.len(), nlines));
        return v;
    }
    let last = obs.slots.last().unwrap();
    match &c.expect {
        Expect::Unspecified => {
            v.class = "unspecified";
            v.compared = false;
        }
        Expect::NotKind(k) => {
            v.class = "rejected-as-required";
            v.compared = true;
            v.expected = format!("not a {}", k);
            if let Slot::Ok { val, .. } = last {
                if val.kind() == k {
                    v.violation = Some(format!("accepted as {}", k));
                }
            }
        }
        Expect::Value(want, rel) => {
            v.class = "value-compared";
            v.compared = true;
            v.expected = format!("{:?}", want);
            match last {
                Slot::Ok { val, .. } => {
                    if !obs::val_close(val, want, *rel) {
                        v.violation = Some(if val.kind() != want.kind() { format!("wrong kind: {} instead of {}", val.kind(), want.kind()) } else { "wrong value".into() });
                    }
                }
                Slot::Err(e) => v.violation = Some(format!("error instead of a value: {}", e)),
                Slot::Empty => v.violation = Some("empty slot instead of a value".into()),
            }
        }
        Expect::ValueOut(want, out_want, rel) => {
            v.class = "value-and-output-compared";
            v.compared = true;
            v.expected = format!("{:?} => {:?}", out_want, want);
            match last {
                Slot::Ok { val, out } => {
                    if !obs::val_close(val, want, *rel) {
                        v.violation = Some(if val.kind() != want.kind() { format!("wrong kind: {} instead of {}", val.kind(), want.kind()) } else { "wrong value".into() });
                    } else if out != out_want {
                        v.violation = Some("wrong printed form".into());
                    }
                }
                Slot::Err(e) => v.violation = Some(format!("error instead of a value: {}", e)),
                Slot::Empty => v.violation = Some("empty slot instead of a value".into()),
            }
        }
        Expect::Output(out_want) => {
            v.class = "output-compared";
            v.compared = true;
            v.expected = format!("{:?}", out_want);
            match last {
                Slot::Ok { out, .. } => {
                    if out != out_want {
                        v.violation = Some("wrong printed form".into());
                    }
                }
                Slot::Err(e) => v.violation = Some(format!("error instead of a value: {}", e)),
                Slot::Empty => v.violation = Some("empty slot instead of a value".into()),
            }
        }
    }
    v
}

/// The same single line in contexts that must not change what it means (the value is looked up
/// in the LAST slot): held in a variable, followed by a comment, as the second line of a text,
/// and on a calculator that also carries a user rule and a user unit family matching nothing.
pub fn contexts_of(c: &LineCase) -> Vec<(&'static str, LineCase)> {
    if c.text.contains('\n') || c.text.contains('=') || c.text.contains('#') || c.tag.contains(':') {
        return Vec::new();
    }
    let mut with_extras = c.cfg.clone();
    with_extras.user_rule = true;
    if with_extras.user_unit.is_none() {
        with_extras.user_unit = Some((2, true, true));
    }
    let mut v = vec![
        ("held in a variable", LineCase { text: format!("zq = {}\nzq", c.text), ..c.clone() }),
        ("held in a variable with a non-ASCII name that also contains a number", LineCase { text: format!("ölçü 2 = {}\nölçü 2", c.text), ..c.clone() }),
        ("held in a variable whose name contains a hyphen", LineCase { text: format!("net-income = {}\nnet-income", c.text), ..c.clone() }),
        ("followed by a comment", LineCase { text: format!("{} # note 5 %", c.text), ..c.clone() }),
        ("followed by a comment with multi-byte and case-length-changing characters", LineCase { text: format!("{} # yıl İ ŉ 日本", c.text), ..c.clone() }),
        ("as the second line of a text", LineCase { text: format!("1 + 1\n{}", c.text), ..c.clone() }),
        ("next to a user rule and a user unit family that match nothing", LineCase { cfg: with_extras, ..c.clone() }),
    ];
    // the same construct twice on one line ('L + L'): rules fire once per pass and take the first
    // match, so a second instance on the line is where a scheduling defect shows.  Only for lines
    // without '+' / '-' of their own and for values that add (number, money, unit quantity, duration).
    if !c.text.contains('+') && !c.text.contains('-') {
        let doubled: Option<Val> = match &c.expect {
            Expect::Value(val, _) | Expect::ValueOut(val, _, _) => match val {
                Val::Number(x, b) if x.is_finite() => Some(Val::Number(2.0 * x, *b)),
                Val::Money(x, cur) => Some(Val::Money(2.0 * x, cur.clone())),
                Val::Unit(x, g, i) => Some(Val::Unit(2.0 * x, g.clone(), *i)),
                Val::Duration(sec) => Some(Val::Duration(2 * sec)),
                _ => None,
            },
            _ => None,
        };
        if let Some(d) = doubled {
            v.push(("written twice on one line, joined by +", LineCase { text: format!("{} + {}", c.text, c.text), expect: Expect::Value(d, 1e-9), ..c.clone() }));
        }
    }
    // a value that does not carry a zone must not depend on the default zone
    let zone_free = match &c.expect {
        Expect::Value(val, _) | Expect::ValueOut(val, _, _) => matches!(val, Val::Number(..) | Val::Percent(..) | Val::Money(..) | Val::Duration(..) | Val::Unit(..)),
        _ => false,
    };
    let clock_words = ["today", "tomorrow", "yesterday", "now", "bugün", "yarın", "dün", ":"];
    if zone_free && c.cfg.tz.is_none() && !clock_words.iter().any(|w| c.text.contains(w)) && !c.text.contains(" pm") && !c.text.contains(" am") {
        let mut z = c.cfg.clone();
        z.tz = Some("EST".to_string());
        v.push(("under the default zone EST", LineCase { cfg: z, ..c.clone() }));
    }
    v
}

pub fn exec_line(ctx: &mut Ctx, c: &LineCase) -> Verdict {
    let run = run_case(ctx, c);
    let mut v = judge(c, &run);
    // ---- the same line in contexts that must not change what it means ----------------------
    // Only for single-line cases with a definite value prediction that held.  A violation in a
    // context is reported with the context written into the input.
    let definite = matches!(c.expect, Expect::Value(..) | Expect::ValueOut(..) | Expect::Output(..));
    if v.violation.is_some() || !definite || c.text.contains('\n') || c.text.contains('=') || c.text.contains('#') || c.tag.contains(':') {
        return v;
    }
    for (what, cc) in contexts_of(c).iter() {
        let r = run_case(ctx, cc);
        v.evals += 1;
        let j = judge(cc, &r);
        if j.violation.is_some() {
            let mut j = j;
            j.violation = Some(format!("{} [context: {}]", j.violation.unwrap(), what));
            j.evals = v.evals;
            return j;
        }
    }
    v
}

/// canonical decimal -> text under the library's default convention (',' decimal)
pub fn num(canon: &str) -> String {
    canon.replace('.', ",")
}
