//! C04 — evaluation never changes the calculator; sessions isolate and persist correctly.

use super::c03::{step, Binding, Env};
use crate::explore::{Bfs, Family, Mode, Verdict};
use crate::obs::{self, Run, Slot};
use crate::runner::{Cfg, Ctx, Prop, Tier};
use serde::{Deserialize, Serialize};
use smartcalc::Session;
use std::collections::BTreeMap;

pub struct C04;

#[derive(Clone, Debug, Serialize, Deserialize)]
pub enum SOp {
    /// session i: set_text(text); execute_session
    SetExec(u8, String),
    /// plain execute(text) on the same calculator
    Plain(String),
    /// session i: execute_session again without a new text
    ReExec(u8),
}

#[derive(Clone, Debug, Serialize, Deserialize)]
pub enum Case {
    /// execute(t) for every text in order on ONE calculator
    Purity(Vec<String>),
    /// the same on a calculator built with a given configuration (reference: a calculator with
    /// that configuration used once)
    PurityCfg(Cfg, Vec<String>),
    Sessions(Vec<SOp>),
    /// setter calls and evaluations interleaved on ONE calculator
    Reconf(Vec<ROp>),
    /// merged breadth-first layer over session operations (bound of the state constraint)
    SessionsReach(Vec<SOp>, i64),
    /// merged breadth-first layer over setter calls: the probe texts are evaluated after every call
    ConfigReach(Vec<ROp>),
    /// one session: 'x = <literal>' ; a setter call on the calculator ; 'x' and 'x + x' on the same
    /// session: the binding still holds the same value
    SessionReconf { bind: String, setter: ROp, doubles: bool },
}

#[derive(Clone, Debug, Serialize, Deserialize)]
pub enum ROp {
    /// set_decimal_seperator + set_thousand_separator
    Seps(String, String),
    /// set_decimal_seperator alone
    Dec(String),
    /// set_thousand_separator alone
    Thou(String),
    /// set_number_configuration(digits, remove zero fraction, rounding)
    Num(u8, bool, bool),
    /// set_timezone
    Tz(String),
    /// update_currency(name, rate)
    Rate(String, String),
    /// execute("en", text)
    Eval(String),
}

/// texts chosen to touch every shared structure: alias rewrite, each rule family, a unit
/// conversion (re-enters the pipeline), multi-line with assignments, CRLF, failing line, blank
const PURITY_TEXTS: [&str; 14] = [
    "2 times 3",
    "10% of 200",
    "10 usd to try",
    "15/6/2021 + 2 months",
    "1 hour 30 minutes as minutes",
    "11:30 EST to CET",
    "255 to hex",
    "1,5 km to m",
    "a = 5\na b = a * 2\na b + a",
    "x = 10 usd\r\nx to eur\r\nx * 2",
    "1 +",
    "",
    "today",
    "1 usd + 1 km\n# c\n7",
];

const SESSION_TEXTS: [&str; 10] = ["", "a = 5", "a", "a = a + 1\na", "b = 7\na + b", "a = 1\nb = 2\na + b", "1 +\na", "a = 2\r\nb = a\r\nb", "b", "a = 1 usd + 1 km\na"];

fn nlines(t: &str) -> usize {
    super::c01::segments(t).len()
}

/// '@tr:2 gün' = the text '2 gün' evaluated with the language tag 'tr' (default 'en')
fn split_lang(t: &str) -> (&str, &str) {
    if let Some(rest) = t.strip_prefix('@') {
        if let Some((lang, text)) = rest.split_once(':') {
            return (lang, text);
        }
    }
    ("en", t)
}

fn exec_purity(ctx: &mut Ctx, cfg: &Cfg, texts: &[String]) -> Verdict {
    let shown = if texts.len() > 8 { format!("walk of {} evaluations starting {:?} ...", texts.len(), &texts[..4]) } else { format!("{}{:?}", if *cfg == Cfg::default() { String::new() } else { format!("[{}] ", serde_json::to_string(cfg).unwrap()) }, texts) };
    let mut v = Verdict { input: shown, class: "history-compared", compared: true, expected: "every observation equals the same text on a calculator used once".into(), ..Default::default() };
    let refs: Vec<String> = texts.iter().map(|t| fresh_obs_cfg(ctx, cfg, t)).collect();
    let calc = ctx.fresh(cfg);
    let mut trace = String::new();
    for (i, t) in texts.iter().enumerate() {
        let (lang, line) = split_lang(t);
        let run = obs::eval(&calc, lang, line);
        v.evals += nlines(t) as u64;
        let o = format!("{:?}", run);
        trace.push_str(&format!("[{}] {} ;; ", i, run.brief()));
        if o != refs[i] {
            if let Run::Panic(p) = &run {
                v.site = Some(p.site.clone());
            }
            v.violation = Some(format!("step {}: execute({:?}) differs from the same text on a fresh calculator", i, t));
            v.expected = refs[i].clone();
            v.observed = o;
            return v;
        }
    }
    v.observed = trace;
    v
}

fn fresh_obs(ctx: &mut Ctx, text: &str) -> String {
    fresh_obs_cfg(ctx, &Cfg::default(), text)
}

fn fresh_obs_cfg(ctx: &mut Ctx, cfg: &Cfg, text: &str) -> String {
    let key = if *cfg == Cfg::default() { format!("fresh|{}", text) } else { format!("fresh|{}|{}", serde_json::to_string(cfg).unwrap(), text) };
    if let Some(v) = ctx.memo.get(&key) {
        return v.clone();
    }
    if let Some(v) = crate::runner::shared_get(&key) {
        ctx.memo.insert(key, v.clone());
        return v;
    }
    let calc = ctx.fresh(cfg);
    let (lang, line) = split_lang(text);
    let r = format!("{:?}", obs::eval(&calc, lang, line));
    crate::runner::shared_put(key.clone(), r.clone());
    ctx.memo.insert(key, r.clone());
    r
}

impl Prop for C04 {
    type Case = Case;
    fn id(&self) -> &'static str {
        "C04"
    }

    fn families(&self, tier: Tier) -> Vec<Family<Case>> {
        let mut f = Vec::new();
        let d = tier.pick(3, 4);
        let nt = tier.pick(10, 14);
        f.push(Family::new(
            "calculator-histories",
            Mode::Full,
            &format!("every sequence of 1..={} execute(t) calls on ONE calculator (each history on its own fresh calculator), t from the first {} of 14 texts (alias rewrite, percent, money conversion, date arithmetic, duration, zone conversion, radix, unit conversion, multi-line with assignments, CRLF text, failing line, blank, today, mixed): every observation (values, outputs, UI tokens) equals that of the same text on a calculator used once", d, nt),
            move |ch| {
                let n = 1 + ch.choose(d);
                let mut ts = Vec::new();
                for _ in 0..n {
                    ts.push(ch.pick(&PURITY_TEXTS[..nt]).to_string());
                }
                Some(Case::Purity(ts))
            },
        ));
        {
            let dl = tier.pick(2, 4);
            f.push(Family::new(
                "language-histories",
                Mode::Full,
                &format!("ONE calculator serving several languages: every sequence of 1..={} execute(lang, t) calls over [en '10 times 2', tr '10 times 2', en '6 divide 3', tr '6 divide 3', tr '5 kere 4', en '5 kere 4', en '2 days', tr '2 gün', en '2 gün', xx '10 times 2', en '12 march 2021', tr '12 mart 2021', en '12 mart 2021'] (words that are an operator, a unit or a month in one language only): every observation equals that of the same call on a calculator used once", dl),
                move |ch| {
                    let n = 1 + ch.choose(dl);
                    let mut ts = Vec::new();
                    for _ in 0..n {
                        ts.push(ch.pick(&["10 times 2", "@tr:10 times 2", "6 divide 3", "@tr:6 divide 3", "@tr:5 kere 4", "5 kere 4", "2 days", "@tr:2 gün", "2 gün", "@xx:10 times 2", "12 march 2021", "@tr:12 mart 2021", "12 mart 2021"]).to_string());
                    }
                    Some(Case::Purity(ts))
                },
            ));
        }
        {
            let dd = tier.pick(2, 4);
            f.push(Family::new(
                "colliding-unit-histories",
                Mode::Full,
                &format!("a calculator that also carries the user family 'troy-weight' (gr, dwt, oz, lb), whose words 'oz' and 'lb' the built-in imperial weights use too, and the bystander family 'fmt': every sequence of 1..={} execute(t) calls, t in [40 dwt to oz, 48 oz to lb, 2 lb to oz, 5 kg to lb, 24 gr to dwt, 3 oz + 2 lb, 1 stone to lb, 3 qq + 1, 10 km to m]: every observation equals that of the same text on a calculator with the same configuration used once (which family a shared word denotes may depend on the configuration, never on earlier evaluations)", dd),
                move |ch| {
                    let n = 1 + ch.choose(dd);
                    let mut ts = Vec::new();
                    for _ in 0..n {
                        ts.push(ch.pick(&["40 dwt to oz", "48 oz to lb", "2 lb to oz", "5 kg to lb", "24 gr to dwt", "3 oz + 2 lb", "1 stone to lb", "3 qq + 1", "10 km to m"]).to_string());
                    }
                    Some(Case::PurityCfg(Cfg { troy: true, user_unit: Some((2, true, true)), ..Default::default() }, ts))
                },
            ));
        }
        {
            // every ordered pair of texts of a large pool as neighbours on ONE calculator: a walk
            // visits [a, b] for every b, for the a's of its slice
            let mut pool: Vec<String> = PURITY_TEXTS.iter().map(|s| s.to_string()).collect();
            for (_, ts) in crate::corpus::lines() {
                pool.push(crate::corpus::render(&ts, &crate::lit::Conv::default_lib()));
            }
            for extra in ["3 m to mm", "250 mm to m", "3 g to mg", "3 mb to bit", "2 dm to cm", "2 dg to cg", "2 inch to m", "3 m to inch", "0 kb to byte", "5 kb to byte", "12 january 2019 + 3 days", "today + 1 week", "0xFF + 1", "255 to binary", "11:30 EST to CET", "11:30 + 13 hours", "1 hour 30 minutes as minutes", "20% off 150", "$200 - 10%", "10 usd + 10 aud", "10 aud to usd", "x = 3 km\nx to m", "1/1/2020 to 3/1/2020", "1619098200 to date"] {
                pool.push(extra.to_string());
            }
            pool.sort();
            pool.dedup();
            let slices = 32usize;
            let np = pool.len();
            f.push(Family::new(
                "pair-walks",
                Mode::Full,
                &format!("{} walks on ONE calculator each; together they evaluate every ordered pair (a, b) of a pool of {} texts (the tagged corpus of all features, the 14 history texts, unit conversions in both directions, currency, date, time, radix, percentage lines) as neighbours [a, b] - {} pairs; every observation must equal that of the text on a calculator used once", slices, np, np * np),
                move |ch| {
                    let k = ch.choose(slices);
                    let mut walk = Vec::new();
                    for (i, a) in pool.iter().enumerate() {
                        if i % slices != k {
                            continue;
                        }
                        for b in pool.iter() {
                            walk.push(a.clone());
                            walk.push(b.clone());
                        }
                    }
                    Some(Case::Purity(walk))
                },
            ));
        }
        {
            // caches keyed by the *shape* of a computation (unit pair, currency pair, rule, zone
            // pair ...) are the realistic way to make a calculator remember: drive every shape
            // with several operand values, zero first
            let depth = tier.pick(3, 4);
            f.push(Family::new(
                "same-shape-histories",
                Mode::Full,
                &format!("every sequence of 1..={} evaluations of ONE line shape with operands from [0, 1, 2,5, 1000] (shapes: unit conversion within a family and across metric/imperial, currency conversion, money sum, percentage, alias word arithmetic, date + N days, N to hex, zone conversion at N o'clock, duration conversion, variable round trip), plus (thorough) every ordered pair of (shape, operand) texts: each on its own fresh calculator, every observation equal to a calculator used once", depth),
                move |ch| {
                    let shapes: [&str; 11] = ["{} kb to byte", "{} inch to cm", "{} usd to try", "{} eur + 1 usd", "{}% of 200", "{} times 3", "15/6/2021 + {} days", "{} to hex", "{}:00 EST to CET", "{} hours 30 minutes as minutes", "v = {} km\nv to m"];
                    let operands: [&str; 4] = ["0", "1", "2,5", "1000"];
                    let fill = |shape: &str, op: &str| -> String {
                        // integer-only slots get the integer part
                        let op = if shape.contains("hex") || shape.contains(":00") || shape.contains("days") || shape.contains("hours") { op.split(',').next().unwrap().trim_end_matches("000").to_string() } else { op.to_string() };
                        let op = if op.is_empty() { "1".to_string() } else { op };
                        shape.replace("{}", &op).replace("\\n", "\n")
                    };
                    // cross-shape neighbours are covered by pair-walks; the pairs below are kept in the
                    // thorough tier (each on its own fresh calculator: first-use effects across shapes)
                    let pairs = tier == Tier::Thorough && ch.flag();
                    if pairs {
                        let a = fill(*ch.pick(&shapes), *ch.pick(&operands));
                        let b = fill(*ch.pick(&shapes), *ch.pick(&operands));
                        return Some(Case::Purity(vec![a, b]));
                    }
                    let shape = *ch.pick(&shapes);
                    let n = 1 + ch.choose(depth);
                    let mut ts = Vec::new();
                    for _ in 0..n {
                        ts.push(fill(shape, *ch.pick(&operands)));
                    }
                    Some(Case::Purity(ts))
                },
            ));
        }
        {
            let dr = tier.pick(3, 4);
            f.push(Family::new(
                "reconfiguration-histories",
                Mode::Full,
                &format!("every sequence of 1..={} operations on ONE calculator over [separators set to (',' '.') | ('.' ',') | ('.' '') | (',' ''); decimal separator alone set to '.'; thousands separator alone set to ','; number format (0 digits) | (4 digits, keep zero fraction, no rounding); default zone CET | EST; evaluate one of 5 texts whose reading depends on the configuration ('1.250 + 1', '1,250 * 2', '2,5 usd to try', 'x = 1.5 km / x to m', '11:30 to EST')]: every evaluation equals the same text on a fresh calculator that was only given the configuration in force (the result is determined by the configuration, not by how it was reached or what was evaluated before)", dr),
                move |ch| {
                    let ops: Vec<ROp> = vec![
                        ROp::Eval("1.250 + 1".into()),
                        ROp::Eval("1,250 * 2".into()),
                        ROp::Eval("2,5 usd to try".into()),
                        ROp::Eval("x = 1.5 km\nx to m".into()),
                        ROp::Eval("11:30 to EST".into()),
                        ROp::Seps(",".into(), ".".into()),
                        ROp::Seps(".".into(), ",".into()),
                        ROp::Seps(".".into(), "".into()),
                        ROp::Seps(",".into(), "".into()),
                        ROp::Dec(".".into()),
                        ROp::Thou(",".into()),
                        ROp::Num(0, true, true),
                        ROp::Num(4, false, false),
                        ROp::Tz("CET".into()),
                        ROp::Tz("EST".into()),
                    ];
                    let n = 1 + ch.choose(dr);
                    let mut h = Vec::new();
                    for _ in 0..n {
                        h.push(ch.pick(&ops).clone());
                    }
                    // a history without an evaluation observes nothing
                    if !h.iter().any(|o| matches!(o, ROp::Eval(_))) {
                        return None;
                    }
                    Some(Case::Reconf(h))
                },
            ));
        }
        {
            let dr = tier.pick(3, 5);
            f.push(Family::new(
                "rate-reconfiguration",
                Mode::Full,
                &format!("every sequence of 1..={} operations on ONE calculator over [update_currency(uah, 40) | (uah, 8) | (try, 2) (uah has no configured rate); evaluate '10 usd to uah' | '80 uah + 1 usd' | '10 usd to try']: every evaluation equals the same text on a fresh calculator that was only given the rates in force (what was evaluated before an update does not matter)", dr),
                move |ch| {
                    let ops: Vec<ROp> = vec![ROp::Eval("10 usd to uah".into()), ROp::Eval("80 uah + 1 usd".into()), ROp::Eval("10 usd to try".into()), ROp::Rate("uah".into(), "40".into()), ROp::Rate("uah".into(), "8".into()), ROp::Rate("try".into(), "2".into())];
                    let n = 1 + ch.choose(dr);
                    let mut h = Vec::new();
                    for _ in 0..n {
                        h.push(ch.pick(&ops).clone());
                    }
                    if !h.iter().any(|o| matches!(o, ROp::Eval(_))) {
                        return None;
                    }
                    Some(Case::Reconf(h))
                },
            ));
        }
        f.push(Family::new(
            "session-reconfiguration",
            Mode::Full,
            "one re-used session: 'x = <literal>' for a number (1.250), a fraction (2,5), money (2,5 usd), a percentage (12,5%), a unit quantity (1,5 km), a duration (90 minutes), a date (3/1/2020); then ONE setter call on the calculator (separators in 4 conventions and both call orders, number format, default zone CET | EST | GMT+14); then 'x' and 'x + x' on the same session: the binding still holds the value it was given (a binding holds a value; configuration affects reading and printing only)",
            move |ch| {
                let bind = *ch.pick(&["x = 1.250", "x = 2,5", "x = 2,5 usd", "x = 12,5%", "x = 1,5 km", "x = 90 minutes", "x = 3/1/2020"]);
                let setters = vec![
                    ROp::Seps(".".into(), ",".into()),
                    ROp::Seps(".".into(), "".into()),
                    ROp::Seps(",".into(), "".into()),
                    ROp::Seps(",".into(), ".".into()),
                    ROp::Dec(".".into()),
                    ROp::Thou(",".into()),
                    ROp::Num(0, true, true),
                    ROp::Num(4, false, false),
                    ROp::Tz("CET".into()),
                    ROp::Tz("EST".into()),
                    ROp::Tz("GMT+14".into()),
                ];
                let setter = ch.pick(&setters).clone();
                let doubles = ch.flag();
                Some(Case::SessionReconf { bind: bind.to_string(), setter, doubles })
            },
        ));
        let ds = tier.pick(3, 4);
        f.push(Family::new(
            "session-histories",
            Mode::Full,
            &format!("every sequence of 1..={} operations over [S1/S2: set_text(t); execute_session for 10 texts of 1..3 lines that bind, re-bind and use two names (incl. CRLF, a line that fails to parse, a re-binding that fails to evaluate, an empty text); plain execute(t) for 3 texts; S1/S2: execute_session again without a new text] on one calculator", ds),
            move |ch| {
                let alphabet = session_ops();
                let n = 1 + ch.choose(ds);
                let mut ops = Vec::new();
                for _ in 0..n {
                    ops.push(ch.pick(&alphabet).clone());
                }
                Some(Case::Sessions(ops))
            },
        ));
        f
    }

    fn bfs_layers(&self, tier: Tier) -> Vec<Bfs<Case>> {
        let ops = session_ops();
        let n = ops.len();
        let (bound, depth) = tier.pick((6i64, 4usize), (8, 7));
        let setters: Vec<ROp> = {
            let mut v = vec![ROp::Dec(",".into()), ROp::Dec(".".into()), ROp::Thou(".".into()), ROp::Thou(",".into()), ROp::Thou("".into()), ROp::Tz("UTC".into()), ROp::Tz("EST".into())];
            if tier == Tier::Thorough {
                v.extend([ROp::Dec(";".into()), ROp::Thou("'".into()), ROp::Tz("CET".into()), ROp::Num(2, true, true), ROp::Num(0, true, true), ROp::Num(4, false, false), ROp::Rate("try".into(), "2".into()), ROp::Rate("try".into(), "0.5".into())]);
            }
            v
        };
        let ns = setters.len();
        let config_layer = Bfs::new(
            "reachable-configurations",
            &format!("explicit-state search over {} setter calls (set_decimal_seperator, set_thousand_separator, set_timezone; thorough also set_number_configuration and update_currency) from the default calculator; a state is the configuration in force; on every edge the shortest setter sequence to the source state is replayed on a fresh calculator with the 6-text probe set evaluated after every call, the setter is applied and the probe set evaluated again: every observation must equal that of a fresh calculator that was given the configuration in force directly; no state constraint (the value sets are finite)", ns),
            ns,
            tier.pick(12, 24),
            move |h| Case::ConfigReach(h.iter().map(|i| setters[*i].clone()).collect()),
        );
        vec![config_layer, Bfs::new(
            "reachable-session-states",
            &format!("explicit-state search over the {} session operations (S1/S2: set_text(t); execute_session for 10 texts, plain execute for 3 texts, S1/S2: execute_session again) on one calculator; a state is the pair of model environments (values of a and b per session), the text each session holds, and the fingerprint of what 'a' and 'b' evaluate to in each session at the end; state constraint: every known value within +-{}; every edge replays the shortest history to its source state on two new sessions, applies the operation and runs the full oracle (model per session, isolation replay, plain evaluations against a fresh calculator); depth bound {}", n, bound, depth),
            n,
            depth,
            move |h| Case::SessionsReach(h.iter().map(|i| ops[*i].clone()).collect(), bound),
        )]
    }

    fn exec(&self, ctx: &mut Ctx, case: &Case) -> Verdict {
        match case {
            Case::Purity(texts) => exec_purity(ctx, &Cfg::default(), texts),
            Case::PurityCfg(cfg, texts) => exec_purity(ctx, cfg, texts),
            Case::Sessions(ops) => exec_sessions(ctx, ops, None),
            Case::SessionsReach(ops, bound) => exec_sessions(ctx, ops, Some(*bound)),
            Case::ConfigReach(setters) => {
                // after every setter call the whole probe set is evaluated (so that anything an
                // evaluation leaves behind is in place when the next setter is called)
                let probes = ["1.250 + 1", "1,250 * 2", "2,5 usd to try", "x = 1.5 km\nx to m", "11:30 to EST", "[NUMBER:1234567.891]"];
                let mut ops: Vec<ROp> = probes.iter().map(|p| ROp::Eval(p.to_string())).collect();
                for st in setters {
                    ops.push(st.clone());
                    ops.extend(probes.iter().map(|p| ROp::Eval(p.to_string())));
                }
                let mut v = exec_reconf(ctx, &ops);
                v.input = format!("setters {:?}, probe set after each", setters);
                if v.violation.is_none() {
                    // canonical state: the configuration in force (the observations equal those of a
                    // fresh calculator with that configuration, so they add nothing to the key)
                    let mut model = Cfg::default();
                    for st in setters {
                        match st {
                            ROp::Seps(d, t) => {
                                model.dec = Some(d.clone());
                                model.thou = Some(t.clone());
                            }
                            ROp::Dec(d) => model.dec = Some(d.clone()),
                            ROp::Thou(t) => model.thou = Some(t.clone()),
                            ROp::Num(d, rm, rd) => model.num = Some((*d, *rm, *rd)),
                            ROp::Tz(z) => model.tz = Some(z.clone()),
                            ROp::Rate(n, r) => {
                                model.rates.retain(|x| !x.starts_with(&format!("{}=", n)));
                                model.rates.push(format!("{}={}", n, r));
                                model.rates.sort();
                            }
                            ROp::Eval(_) => {}
                        }
                    }
                    v.key = Some(serde_json::to_string(&model).unwrap());
                }
                v
            }
            Case::Reconf(ops) => exec_reconf(ctx, ops),
            Case::SessionReconf { bind, setter, doubles } => exec_session_reconf(ctx, bind, setter, *doubles),
        }
    }

    fn rule(&self) -> String {
        "cases are all call histories within the stated alphabets and depths; calculator histories are compared step by step (full observation incl. UI tokens) with the same text on a calculator used once; session histories are checked (a) against the reference environment of C03 kept per session (slot count = line count, values in order, persistence), (b) differentially against a replay of each session's own operations on a new session and a fresh calculator (isolation), (c) plain evaluations against a fresh calculator; every case is non-trivial; distinct = distinct history".into()
    }
    fn assumptions(&self) -> Vec<String> {
        vec!["calling execute_session twice on the same text is only required to return normally with no more slots than the text has lines; its effect on the session's variables is unspecified (the model forgets them)".into()]
    }
}

/// the session operation alphabet, in the order the histories enumerate it
fn session_ops() -> Vec<SOp> {
    let mut v = Vec::new();
    for t in SESSION_TEXTS {
        v.push(SOp::SetExec(0, t.to_string()));
    }
    for t in SESSION_TEXTS {
        v.push(SOp::SetExec(1, t.to_string()));
    }
    for t in ["a", "a = 1\nb = 2\na + b", "a = a + 1\na"] {
        v.push(SOp::Plain(t.to_string()));
    }
    v.push(SOp::ReExec(0));
    v.push(SOp::ReExec(1));
    v
}

fn slots_of(run: &Run) -> Option<(bool, Vec<Slot>)> {
    match run {
        Run::Done(o) => Some((o.status, o.slots.clone())),
        Run::Panic(_) => None,
    }
}

fn exec_sessions(ctx: &mut Ctx, ops: &[SOp], reach: Option<i64>) -> Verdict {
    let mut v = Verdict { input: format!("{:?}", ops), class: "history-compared", compared: true, ..Default::default() };
    // ---- run the history on one calculator with two sessions
    let mut observed: Vec<Run> = Vec::new();
    let mut fingerprint = String::new();
    {
        let calc = ctx.calc(&Cfg::default());
        let mut sessions = [Session::new(), Session::new()];
        for s in sessions.iter_mut() {
            s.set_language("en".to_string());
        }
        for op in ops {
            let run = match op {
                SOp::SetExec(i, t) => obs::eval_session(calc, &mut sessions[*i as usize], Some(t)),
                SOp::Plain(t) => obs::eval(calc, "en", t),
                SOp::ReExec(i) => obs::eval_session(calc, &mut sessions[*i as usize], None),
            };
            v.evals += 1;
            observed.push(run);
        }
        if reach.is_some() {
            // what the two names denote in each session at the end (the sessions are discarded afterwards)
            for s in sessions.iter_mut() {
                fingerprint.push_str(&format!("{:?};", obs::eval_session(calc, s, Some(&"a\nb".to_string()))));
                v.evals += 1;
            }
        }
    }
    v.observed = observed.iter().map(|r| r.brief()).collect::<Vec<_>>().join(" ;; ");
    for (i, r) in observed.iter().enumerate() {
        if let Run::Panic(p) = r {
            v.violation = Some(format!("step {}: panic: {}", i, p.message));
            v.site = Some(p.site.clone());
            return v;
        }
    }
    // ---- (a) reference model per session
    let mut envs: [Env; 2] = [BTreeMap::new(), BTreeMap::new()];
    let mut current: [Option<String>; 2] = [None, None];
    for (i, op) in ops.iter().enumerate() {
        let (status, slots) = slots_of(&observed[i]).unwrap();
        match op {
            SOp::SetExec(s, t) => {
                let lines = super::c01::segments(t);
                current[*s as usize] = Some(t.clone());
                if !status || slots.len() != lines.len() {
                    v.expected = format!("status true and {} slots", lines.len());
                    v.violation = Some(format!("step {}: session {} set_text({:?}) gave status={} and {} slots", i, s, t, status, slots.len()));
                    return v;
                }
                for (k, l) in lines.iter().enumerate() {
                    match step(l, &mut envs[*s as usize]) {
                        None => {}
                        Some(None) => {
                            if slots[k] != Slot::Empty {
                                v.violation = Some(format!("step {}: blank line {} has a non-empty slot", i, k));
                                return v;
                            }
                        }
                        Some(Some(want)) => match &slots[k] {
                            Slot::Ok { val, .. } if obs::val_close(val, &want, 1e-9) => {}
                            _ => {
                                v.expected = format!("{:?}", want);
                                v.violation = Some(format!("step {}: session {} line {} ({:?}) should be {:?} (variables of a re-used session persist, lines evaluated once, in order)", i, s, k, l, want));
                                return v;
                            }
                        },
                    }
                }
            }
            SOp::Plain(t) => {
                // checked differentially below (c)
                let _ = t;
            }
            SOp::ReExec(s) => {
                let max = current[*s as usize].as_ref().map(|t| nlines(t)).unwrap_or(0);
                if slots.len() > max {
                    v.violation = Some(format!("step {}: execute_session without a new text invented slots ({} > {})", i, slots.len(), max));
                    return v;
                }
                // effect on variables unspecified: forget what the model knows
                let names: Vec<Vec<String>> = envs[*s as usize].keys().cloned().collect();
                for n in names {
                    envs[*s as usize].insert(n, Binding::Unknown);
                }
                for n in [vec!["a".to_string()], vec!["b".to_string()]] {
                    envs[*s as usize].insert(n, Binding::Unknown);
                }
            }
        }
    }
    // ---- (b) isolation: each session's own operations replayed on a new session and a fresh calculator
    for s in 0..2u8 {
        let own: Vec<usize> = ops.iter().enumerate().filter(|(_, op)| matches!(op, SOp::SetExec(i, _) | SOp::ReExec(i) if *i == s)).map(|(i, _)| i).collect();
        if own.is_empty() || own.len() == ops.len() && ops.iter().all(|o| !matches!(o, SOp::Plain(_))) && false {
            continue;
        }
        // the replay depends only on the projected operations: memoise it per thread
        let key = format!("proj|{:?}", own.iter().map(|i| &ops[*i]).collect::<Vec<_>>());
        let cached = ctx.memo.get(&key).cloned().or_else(|| crate::runner::shared_get(&key));
        let replayed: Vec<String> = match cached {
            Some(j) => {
                ctx.memo.entry(key.clone()).or_insert_with(|| j.clone());
                j.split('\u{1}').map(|s| s.to_string()).collect()
            }
            None => {
                let calc = ctx.fresh(&Cfg::default());
                let mut session = Session::new();
                session.set_language("en".to_string());
                let mut outs = Vec::new();
                for idx in own.iter() {
                    let run = match &ops[*idx] {
                        SOp::SetExec(_, t) => obs::eval_session(&calc, &mut session, Some(t)),
                        SOp::ReExec(_) => obs::eval_session(&calc, &mut session, None),
                        _ => unreachable!(),
                    };
                    v.evals += 1;
                    outs.push(format!("{:?}", run));
                }
                crate::runner::shared_put(key.clone(), outs.join("\u{1}"));
                ctx.memo.insert(key, outs.join("\u{1}"));
                outs
            }
        };
        for (k, idx) in own.iter().enumerate() {
            if replayed[k] != format!("{:?}", observed[*idx]) {
                v.expected = replayed[k].clone();
                v.violation = Some(format!("step {}: session {} behaves differently than when its own operations are replayed alone on a new session and a fresh calculator (something leaked from other evaluations)", idx, s));
                return v;
            }
        }
    }
    // ---- (c) plain evaluations share nothing
    for (i, op) in ops.iter().enumerate() {
        if let SOp::Plain(t) = op {
            let want = fresh_obs(ctx, t);
            if format!("{:?}", observed[i]) != want {
                v.expected = want;
                v.violation = Some(format!("step {}: plain execute({:?}) differs from the same text on a fresh calculator", i, t));
                return v;
            }
        }
    }
    if let Some(bound) = reach {
        let within = envs.iter().all(|e| {
            e.values().all(|b| match b {
                Binding::Known(crate::obs::Val::Number(x, _)) => x.abs() <= bound as f64,
                _ => true,
            })
        });
        if within {
            v.key = Some(format!("{:?}|{:?}|{:?}|{}", envs[0], envs[1], current, fingerprint));
        }
    }
    v
}

fn exec_reconf(ctx: &mut Ctx, ops: &[ROp]) -> Verdict {
    let mut v = Verdict { input: format!("{:?}", ops), class: "history-compared", compared: true, expected: "every evaluation equals the same text on a fresh calculator given only the configuration in force".into(), ..Default::default() };
    let mut calc = ctx.fresh(&Cfg::default());
    let mut model = Cfg::default();
    let mut trace = String::new();
    for (i, op) in ops.iter().enumerate() {
        match op {
            ROp::Seps(d, t) => {
                calc.set_decimal_seperator(d.clone());
                calc.set_thousand_separator(t.clone());
                model.dec = Some(d.clone());
                model.thou = Some(t.clone());
            }
            ROp::Dec(d) => {
                calc.set_decimal_seperator(d.clone());
                model.dec = Some(d.clone());
            }
            ROp::Thou(t) => {
                calc.set_thousand_separator(t.clone());
                model.thou = Some(t.clone());
            }
            ROp::Num(d, rm, rd) => {
                calc.set_number_configuration(*d, *rm, *rd);
                model.num = Some((*d, *rm, *rd));
            }
            ROp::Rate(name, rate) => {
                if !calc.update_currency(name, rate.parse::<f64>().unwrap()) {
                    v.violation = Some(format!("step {}: update_currency({:?}) rejected", i, name));
                    return v;
                }
                model.rates.retain(|r| !r.starts_with(&format!("{}=", name)));
                model.rates.push(format!("{}={}", name, rate));
            }
            ROp::Tz(z) => {
                if let Err(e) = calc.set_timezone(z.clone()) {
                    v.violation = Some(format!("step {}: set_timezone({:?}) rejected: {}", i, z, e));
                    return v;
                }
                model.tz = Some(z.clone());
            }
            ROp::Eval(t) => {
                let run = obs::eval(&calc, "en", t);
                v.evals += nlines(t) as u64;
                let o = format!("{:?}", run);
                let key = format!("reconf-ref|{}|{}", serde_json::to_string(&model).unwrap(), t);
                let want = match ctx.memo.get(&key).cloned().or_else(|| crate::runner::shared_get(&key)) {
                    Some(w) => w,
                    None => {
                        let fresh = ctx.fresh(&model);
                        let w = format!("{:?}", obs::eval(&fresh, "en", t));
                        crate::runner::shared_put(key.clone(), w.clone());
                        ctx.memo.insert(key, w.clone());
                        w
                    }
                };
                trace.push_str(&format!("[{}] {} ;; ", i, run.brief()));
                if o != want {
                    if let Run::Panic(p) = &run {
                        v.site = Some(p.site.clone());
                    }
                    v.violation = Some(format!("step {}: execute({:?}) differs from the same text on a fresh calculator with the configuration in force {}", i, t, serde_json::to_string(&model).unwrap()));
                    v.expected = want;
                    v.observed = o;
                    return v;
                }
            }
        }
    }
    v.observed = trace;
    v
}

fn exec_session_reconf(ctx: &mut Ctx, bind: &str, setter: &ROp, doubles: bool) -> Verdict {
    use crate::obs::Val;
    let mut v = Verdict { input: format!("{} ;; {:?} ;; {}", bind, setter, if doubles { "x + x" } else { "x" }), class: "history-compared", compared: true, expected: "the binding keeps its value across the setter call".into(), evals: 2, ..Default::default() };
    let mut calc = ctx.fresh(&Cfg::default());
    let mut session = Session::new();
    session.set_language("en".to_string());
    let first = obs::eval_session(&calc, &mut session, Some(bind));
    let bound = match first.single() {
        Some(Slot::Ok { val, .. }) => val.clone(),
        _ => {
            v.violation = Some("the binding line does not evaluate".into());
            v.observed = first.brief();
            return v;
        }
    };
    match setter {
        ROp::Seps(d, t) => {
            calc.set_decimal_seperator(d.clone());
            calc.set_thousand_separator(t.clone());
        }
        ROp::Dec(d) => calc.set_decimal_seperator(d.clone()),
        ROp::Thou(t) => calc.set_thousand_separator(t.clone()),
        ROp::Num(d, rm, rd) => calc.set_number_configuration(*d, *rm, *rd),
        ROp::Tz(z) => {
            let _ = calc.set_timezone(z.clone());
        }
        ROp::Rate(name, rate) => {
            let _ = calc.update_currency(name, rate.parse::<f64>().unwrap());
        }
        ROp::Eval(_) => {}
    }
    let text = if doubles { "x + x" } else { "x" };
    let second = obs::eval_session(&calc, &mut session, Some(text));
    v.observed = format!("{} ;; {}", first.brief(), second.brief());
    if let Run::Panic(p) = &second {
        v.violation = Some(format!("panic: {}", p.message));
        v.site = Some(p.site.clone());
        return v;
    }
    // the calendar date of a date value, whatever zone label it carries
    let same = |a: &Val, b: &Val| match (a, b) {
        (Val::Date { y, m, d, .. }, Val::Date { y: y2, m: m2, d: d2, .. }) => y == y2 && m == m2 && d == d2,
        _ => obs::val_close(a, b, 1e-12),
    };
    let want: Option<Val> = if !doubles {
        Some(bound.clone())
    } else {
        match &bound {
            Val::Number(x, b) => Some(Val::Number(2.0 * x, *b)),
            Val::Money(x, c) => Some(Val::Money(2.0 * x, c.clone())),
            Val::Unit(x, g, i) => Some(Val::Unit(2.0 * x, g.clone(), *i)),
            Val::Duration(s) => Some(Val::Duration(2 * s)),
            _ => None, // percent + percent, date + date: not prescribed
        }
    };
    match (want, second.single()) {
        (None, _) => {
            v.class = "unspecified";
            v.compared = false;
        }
        (Some(w), Some(Slot::Ok { val, .. })) if same(val, &w) => {}
        (Some(w), _) => {
            v.expected = format!("{:?}", w);
            v.violation = Some("after a setter call on the calculator the session's binding no longer denotes the value it was given".into());
        }
    }
    v
}
