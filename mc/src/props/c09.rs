//! C09 — dates are read as calendar dates and date arithmetic is calendar arithmetic.

use super::common::{exec_line, Expect, LineCase};
use crate::explore::{Family, Mode, Verdict};
use crate::model::calendar as cal;
use crate::obs::Val;
use crate::runner::{Ctx, Prop, Tier};
use crate::spec::spec;

pub struct C09;

type D = (i64, i64, i64);

fn date_val(d: D) -> Val {
    Val::Date { y: d.0 as i32, m: d.1 as u32, d: d.2 as u32, zone: "UTC".into(), off: 0 }
}

/// month names of a language: month number -> all configured names (long and short)
pub fn month_names(lang: &str, m: i64) -> Vec<String> {
    let mut v = Vec::new();
    for key in ["long_months", "short_months"] {
        if let Some(o) = spec().lang(lang)[key].as_object() {
            for (name, n) in o {
                if n.as_i64() == Some(m) && !v.contains(name) {
                    v.push(name.clone());
                }
            }
        }
    }
    v
}

fn recase(s: &str, how: usize) -> String {
    match how {
        0 => s.to_string(),
        1 => {
            let mut c = s.chars();
            match c.next() {
                Some(f) => f.to_uppercase().collect::<String>() + c.as_str(),
                None => String::new(),
            }
        }
        _ => s.to_uppercase(),
    }
}

/// the harness clock's default instant is 2026-03-15T12:00:00Z
const CLOCK_YEAR: i64 = 2026;

fn base_dates(tier: Tier) -> Vec<D> {
    let mut v: Vec<D> = Vec::new();
    match tier {
        Tier::Quick => {
            // every month end / month start / mid month of a leap and a non-leap year + boundaries
            for y in [2020i64, 2021] {
                for m in 1..=12 {
                    for d in [1, 15, 28, cal::days_in_month(y, m)] {
                        v.push((y, m, d));
                    }
                }
            }
            v.push((2020, 2, 29));
            v.push((2021, 1, 29));
            v.push((2021, 1, 30));
        }
        Tier::Thorough => {
            for y in [2019i64, 2020, 2021, 2023, 2024] {
                for m in 1..=12 {
                    for d in 1..=cal::days_in_month(y, m) {
                        v.push((y, m, d));
                    }
                }
            }
            for y in [2i64, 400, 1600, 1999, 2001, 2399, 2400, 9998] {
                for m in 1..=12 {
                    v.push((y, m, cal::days_in_month(y, m)));
                    v.push((y, m, 1));
                }
            }
        }
    }
    for y in [1i64, 1900, 2000, 2100, 9999] {
        for m in [1, 2, 12] {
            v.push((y, m, cal::days_in_month(y, m)));
            v.push((y, m, 1));
        }
    }
    v.sort();
    v.dedup();
    v
}

fn dmy(d: D) -> String {
    format!("{}/{}/{}", d.2, d.1, d.0)
}

impl Prop for C09 {
    type Case = LineCase;
    fn id(&self) -> &'static str {
        "C09"
    }

    fn families(&self, tier: Tier) -> Vec<Family<LineCase>> {
        let mut f = Vec::new();
        let langs = spec().languages.clone();

        // reading ---------------------------------------------------------------------------
        {
            let mut dates: Vec<D> = Vec::new();
            for y in tier.pick(vec![2020i64], vec![2019i64, 2020, 2021, 2024, 1900, 2000]) {
                for m in 1..=12 {
                    for d in 1..=cal::days_in_month(y, m) {
                        dates.push((y, m, d));
                    }
                }
            }
            for y in [1i64, 1900, 2000, 2100, 9999, CLOCK_YEAR] {
                for m in 1..=12 {
                    dates.push((y, m, cal::days_in_month(y, m)));
                }
            }
            let n = dates.len();
            let langs = langs.clone();
            f.push(Family::new(
                "read-dmy",
                Mode::Full,
                &format!("d/m/y (with and without zero padding) for {} dates (every day of {:?}, month ends of years 1, 1900, 2000, 2100, 9999, {}) in every language", n, tier.pick(vec![2020], vec![2019, 2020, 2021, 2024, 1900, 2000]), CLOCK_YEAR),
                move |ch| {
                    let l = ch.pick(&langs).clone();
                    let d = *ch.pick(&dates);
                    let pad = ch.flag();
                    let text = if pad { format!("{:02}/{:02}/{}", d.2, d.1, d.0) } else { dmy(d) };
                    Some(LineCase::new(text, Expect::Value(date_val(d), 0.0), "read-dmy").with_lang(&l))
                },
            ));
        }
        {
            let days: Vec<i64> = tier.pick(vec![1, 9, 15, 28, 31], (1..=31).collect());
            let langs = langs.clone();
            f.push(Family::new(
                "read-month-names",
                Mode::Full,
                "every configured month name (long and short, all synonyms) of every language x lower/Capitalised/UPPER case x every spelling the language's date patterns admit ('d Mon y', 'd Mon', and in English 'Mon d y', 'Mon d, y') x days x years [2020, 1999, and 5, 20, 28, 31 - years that are also valid days of a month; current year by default]",
                move |ch| {
                    let l = ch.pick(&langs).clone();
                    let m = 1 + ch.choose(12) as i64;
                    let names = month_names(&l, m);
                    let name = ch.pick(&names).clone();
                    let how = ch.choose(3);
                    let nforms = if l == "en" { 4 } else { 2 };
                    let form = ch.choose(nforms);
                    let d = *ch.pick(&days);
                    let y = *ch.pick(&[2020i64, 1999, 5, 20, 28, 31]);
                    let mname = recase(&name, how);
                    let (text, year) = match form {
                        0 => (format!("{} {} {}", d, mname, y), y),
                        1 => (format!("{} {}", d, mname), CLOCK_YEAR),
                        2 => (format!("{} {} {}", mname, d, y), y),
                        _ => (format!("{} {}, {}", mname, d, y), y),
                    };
                    if form == 1 && y != 2020 {
                        return None;
                    }
                    if !cal::valid(year, m, d) {
                        return Some(LineCase::new(text, Expect::NotKind("date".into()), "reject-name").with_lang(&l));
                    }
                    Some(LineCase::new(text, Expect::Value(date_val((year, m, d)), 0.0), "read-name").with_lang(&l))
                },
            ));
        }
        // printing under default zones ---------------------------------------------------------
        {
            let t = |n: &str| *spec().zones.get(n).unwrap_or(&0);
            let zones: Vec<(Option<&'static str>, String, i32)> = vec![(None, "UTC".into(), 0), (Some("CET"), "CET".into(), t("CET")), (Some("EST"), "EST".into(), t("EST")), (Some("GMT-11"), "GMT-11".into(), -660), (Some("GMT+14"), "GMT+14".into(), 840)];
            f.push(Family::new(
                "print-under-zones",
                Mode::Full,
                "d/m/y, 'd Month y' and 'd/m/y + 3 days' for every month x days [1, 15, last] x years [2021, 1999] under default zones [UTC, CET, EST, GMT-11, GMT+14] (English): the value is that calendar date and it is printed as that calendar date ('d Mon y'), whatever the default zone is",
                move |ch| {
                    const SHORT: [&str; 12] = ["Jan", "Feb", "Mar", "Apr", "May", "Jun", "Jul", "Aug", "Sep", "Oct", "Nov", "Dec"];
                    let (tz, label, off) = ch.pick(&zones).clone();
                    let y = *ch.pick(&[2021i64, 1999]);
                    let m = 1 + ch.choose(12) as i64;
                    let d = *ch.pick(&[1, 15, cal::days_in_month(y, m)]);
                    let form = ch.choose(3);
                    let (text, shown) = match form {
                        0 => (format!("{}/{}/{}", d, m, y), (y, m, d)),
                        1 => (format!("{} {} {}", d, month_names("en", m)[0], y), (y, m, d)),
                        _ => (format!("{}/{}/{} + 3 days", d, m, y), cal::add_days((y, m, d), 3)),
                    };
                    let val = Val::Date { y: shown.0 as i32, m: shown.1 as u32, d: shown.2 as u32, zone: label.clone(), off };
                    let out = format!("{} {} {}", shown.2, SHORT[(shown.1 - 1) as usize], shown.0);
                    let cfg = crate::runner::Cfg { tz: tz.map(|s| s.to_string()), ..Default::default() };
                    Some(LineCase::new(text, Expect::ValueOut(val, out, 0.0), "print-zone").with_cfg(cfg))
                },
            ));
        }
        // rejection ---------------------------------------------------------------------------
        f.push(Family::new(
            "reject",
            Mode::Full,
            "every (d, m) in 0..=32 x 0..=13 that is not a calendar day, in a leap (2020) and a non-leap (2021) year, written d/m/y and 'd Month y': never accepted as a date",
            move |ch| {
                let y = *ch.pick(&[2020i64, 2021]);
                let d = ch.choose(33) as i64;
                let m = ch.choose(14) as i64;
                let named = ch.flag();
                if cal::valid(y, m, d) {
                    return None;
                }
                let text = if named {
                    if m < 1 || m > 12 {
                        return None;
                    }
                    format!("{} {} {}", d, month_names("en", m)[0], y)
                } else {
                    format!("{}/{}/{}", d, m, y)
                };
                Some(LineCase::new(text, Expect::NotKind("date".into()), "reject"))
            },
        ));
        f.push(Family::new(
            "reject-fractions",
            Mode::Full,
            "d/m/y and 'd Month y' in which the day, the month or the year carries a fraction (5,9/1/2021, 1/2,5/2021, 31/12/0,5, 1,5 March 2021, also through a variable 'x = 1,5 / x/2/2020'), for days [1, 5, 28, 31], months [1, 2, 12], years [2020, 2021] and fractions [,5 ,9 ,25]: never accepted as a date",
            move |ch| {
                let d = *ch.pick(&[1i64, 5, 28, 31]);
                let m = *ch.pick(&[1i64, 2, 12]);
                let y = *ch.pick(&[2020i64, 2021]);
                let fr = *ch.pick(&[",5", ",9", ",25"]);
                let text = match ch.choose(5) {
                    0 => format!("{}{}/{}/{}", d, fr, m, y),
                    1 => format!("{}/{}{}/{}", d, m, fr, y),
                    2 => format!("{}/{}/{}{}", d, m, y, fr),
                    3 => format!("{}{} {} {}", d, fr, month_names("en", m)[0], y),
                    _ => format!("x = {}{}\nx/{}/{}", d, fr, m, y),
                };
                Some(LineCase::new(text, Expect::NotKind("date".into()), "reject-fractions"))
            },
        ));
        // arithmetic ------------------------------------------------------------------------
        {
            let bases = base_dates(tier);
            let nb = bases.len();
            f.push(Family::new(
                "plus-minus",
                Mode::Full,
                &format!("{} base dates x offsets (quick: days 0..=40, 59, 60, 100, 365, 366, 1000; weeks 0..=8, 52, 53; months 0..=25, 36, 120; years 0..=5, 100 / thorough: days 0..=70, 100, 364..366, 730, 1000, 10000; weeks 0..=20, 52, 53, 104, 1000; months 0..=49, 60, 120, 600, 1200; years 0..=12, 50, 100, 400, 1000) x (+, -): N days/weeks = exactly that many days; N months/years = same day of month, month/year moved (unspecified if that day does not exist)", nb),
                move |ch| {
                    let base = *ch.pick(&bases);
                    let unit = ch.choose(4);
                    let ns: Vec<i64> = match (unit, tier) {
                        (0, Tier::Quick) => (0..=40).chain([59, 60, 100, 365, 366, 1000].into_iter()).collect(),
                        (1, Tier::Quick) => (0..=8).chain([52, 53].into_iter()).collect(),
                        (2, Tier::Quick) => (0..=25).chain([36, 120].into_iter()).collect(),
                        (_, Tier::Quick) => (0..=5).chain([100].into_iter()).collect(),
                        (0, Tier::Thorough) => (0..=70).chain([100, 364, 365, 366, 730, 1000, 10000].into_iter()).collect(),
                        (1, Tier::Thorough) => (0..=20).chain([52, 53, 104, 1000].into_iter()).collect(),
                        (2, Tier::Thorough) => (0..=49).chain([60, 120, 600, 1200].into_iter()).collect(),
                        (_, Tier::Thorough) => (0..=12).chain([50, 100, 400, 1000].into_iter()).collect(),
                    };
                    let n = *ch.pick(&ns);
                    let plus = ch.flag();
                    let sgn = if plus { 1 } else { -1 };
                    let (word, want): (&str, Option<D>) = match unit {
                        0 => (if n == 1 { "day" } else { "days" }, Some(cal::add_days(base, sgn * n))),
                        1 => (if n == 1 { "week" } else { "weeks" }, Some(cal::add_days(base, sgn * 7 * n))),
                        2 => (if n == 1 { "month" } else { "months" }, cal::add_months(base, sgn * n)),
                        _ => (if n == 1 { "year" } else { "years" }, cal::add_months(base, sgn * 12 * n)),
                    };
                    let text = format!("{} {} {} {}", dmy(base), if plus { '+' } else { '-' }, n, word);
                    let expect = match want {
                        Some(d) if d.0 >= 1 && d.0 <= 9999 => Expect::Value(date_val(d), 0.0),
                        _ => Expect::Unspecified,
                    };
                    Some(LineCase::new(text, expect, "plus-minus"))
                },
            ));
        }
        f.push(Family::new(
            "plus-minus-forms",
            Mode::Full,
            "the offset held in a variable, a month-name date as base, and mixed lists 'Y years M months D days' whose parts are each below the next unit (M < 12, D < 30): years, then months, then days",
            move |ch| {
                let bases: [D; 6] = [(2021, 1, 15), (2020, 2, 29), (2021, 11, 30), (2021, 12, 1), (2019, 3, 31), (2021, 10, 5)];
                let base = *ch.pick(&bases);
                let plus = ch.flag();
                let sgn = if plus { 1 } else { -1 };
                let form = ch.choose(3);
                let op = if plus { '+' } else { '-' };
                match form {
                    0 => {
                        let (dt, months, days) = *ch.pick(&[("3 months", 3, 0), ("1 month", 1, 0), ("10 days", 0, 10), ("2 weeks", 0, 14), ("1 year", 12, 0)]);
                        let step1 = cal::add_months(base, sgn * months);
                        let want = step1.map(|d| cal::add_days(d, sgn * days));
                        let text = format!("v = {}\n{} {} v", dt, dmy(base), op);
                        Some(LineCase::new(text, want.map(|d| Expect::Value(date_val(d), 0.0)).unwrap_or(Expect::Unspecified), "via-variable"))
                    }
                    1 => {
                        let (dt, months, days) = *ch.pick(&[("3 months", 3, 0), ("10 days", 0, 10), ("1 year", 12, 0)]);
                        let step1 = cal::add_months(base, sgn * months);
                        let want = step1.map(|d| cal::add_days(d, sgn * days));
                        let name = &month_names("en", base.1)[0];
                        let text = format!("{} {} {} {} {}", base.2, name, base.0, op, dt);
                        Some(LineCase::new(text, want.map(|d| Expect::Value(date_val(d), 0.0)).unwrap_or(Expect::Unspecified), "month-name-base"))
                    }
                    _ => {
                        let y = ch.choose(3) as i64;
                        let m = *ch.pick(&[0i64, 1, 2, 11]);
                        let d = *ch.pick(&[0i64, 1, 3, 29]);
                        if y + m + d == 0 {
                            return None;
                        }
                        let mut parts: Vec<String> = Vec::new();
                        if y > 0 {
                            parts.push(format!("{} {}", y, if y == 1 { "year" } else { "years" }));
                        }
                        if m > 0 {
                            parts.push(format!("{} {}", m, if m == 1 { "month" } else { "months" }));
                        }
                        if d > 0 {
                            parts.push(format!("{} {}", d, if d == 1 { "day" } else { "days" }));
                        }
                        let want = cal::add_months(base, sgn * 12 * y).and_then(|x| cal::add_months(x, sgn * m)).map(|x| cal::add_days(x, sgn * d));
                        let text = format!("{} {} {}", dmy(base), op, parts.join(" "));
                        Some(LineCase::new(text, want.map(|d| Expect::Value(date_val(d), 0.0)).unwrap_or(Expect::Unspecified), "mixed-list"))
                    }
                }
            },
        ));
        f.push(Family::new(
            "negative-counts",
            Mode::Full,
            "a negative day or week count below 30 days in all: the sign glued to the count ('1/3/2021 -3 days', '1/3/2020-1 day', 'June 15, 2021 -1 week'), added explicitly ('1/3/2021 + -3 days'), and held in a variable ('n = -3 / 15/6/2021 + n days', 'n = -2 / 15/6/2021 - n weeks'), and a date without a year followed by a count with a glued sign ('10 June +3 weeks', '10 June -3 days'), for bases around month ends and the leap day, in every language: the date exactly that many days away",
            move |ch| {
                let bases: [D; 6] = [(2021, 3, 1), (2020, 3, 1), (2021, 6, 15), (2021, 1, 1), (2020, 12, 31), (2019, 3, 31)];
                let base = *ch.pick(&bases);
                let lang = ch.pick(&spec().languages).clone();
                use crate::model::duration::Unit;
                let (n, unit, len) = *ch.pick(&[(1i64, Unit::Day, 1i64), (3, Unit::Day, 1), (10, Unit::Day, 1), (29, Unit::Day, 1), (1, Unit::Week, 7), (2, Unit::Week, 7), (4, Unit::Week, 7)]);
                let (sing, plur) = unit.words(&lang);
                let word = if n == 1 { sing } else { plur };
                let form = ch.choose(8);
                // a date written 'd Month' (current year) with the sign glued to the count
                let named = format!("{} {}", base.2, month_names(&lang, base.1)[0]);
                let this_year = (cal::civil_from_days(crate::seam::DEFAULT_NOW.div_euclid(86400)).0, base.1, base.2);
                if form >= 5 && !cal::valid(this_year.0, this_year.1, this_year.2) {
                    return None;
                }
                if form >= 5 {
                    let (text, delta) = match form {
                        5 => (format!("{} +{} {}", named, n, word), n * len),
                        6 => (format!("{} -{} {}", named, n, word), -n * len),
                        _ => (format!("v = {} +{} {}\nv", named, n, word), n * len),
                    };
                    return Some(LineCase::new(text, Expect::Value(date_val(cal::add_days(this_year, delta)), 0.0), "negative-count").with_lang(&lang));
                }
                let (text, delta) = match form {
                    0 => (format!("{} -{} {}", dmy(base), n, word), -n * len),
                    1 => (format!("{}-{} {}", dmy(base), n, word), -n * len),
                    2 => (format!("{} + -{} {}", dmy(base), n, word), -n * len),
                    3 => (format!("n = -{}\n{} + n {}", n, dmy(base), word), -n * len),
                    _ => (format!("n = -{}\n{} - n {}", n, dmy(base), word), n * len),
                };
                Some(LineCase::new(text, Expect::Value(date_val(cal::add_days(base, delta)), 0.0), "negative-count").with_lang(&lang))
            },
        ));
        // difference ----------------------------------------------------------------------------
        {
            let mut ds: Vec<D> = Vec::new();
            let n = tier.pick(24, 400);
            // spread over 1999..2031 with month ends and leap days
            let mut z = cal::days_from_civil(1999, 12, 30);
            for i in 0..n {
                ds.push(cal::civil_from_days(z));
                z += 1 + (i * 37 % 211) as i64;
            }
            ds.push((2000, 2, 29));
            ds.push((2000, 3, 1));
            ds.push((1, 1, 1));
            ds.push((9999, 12, 31));
            f.push(Family::new(
                "difference",
                Mode::Full,
                &format!("'A to B' for all ordered pairs of {} dates: the absolute number of days, symmetric", ds.len()),
                move |ch| {
                    let a = *ch.pick(&ds);
                    let b = *ch.pick(&ds);
                    let days = (cal::days_from_civil(a.0, a.1, a.2) - cal::days_from_civil(b.0, b.1, b.2)).abs();
                    Some(LineCase::new(format!("{} to {}", dmy(a), dmy(b)), Expect::Value(Val::Duration(days * 86400), 0.0), "difference"))
                },
            ));
        }
        {
            let langs2 = langs.clone();
            f.push(Family::new(
                "difference-with-month-names",
                Mode::Full,
                "'A to B' (tr: 'A B arası') with both dates written with month names, for days [1, 15, 28] x all 144 ordered month pairs (so also the same month twice on one line) x years [2021/2021, 1999/2021] x long and short names, in every language that has the phrase: the absolute number of days",
                move |ch| {
                    let l = ch.pick(&langs2).clone();
                    let (m1, m2) = (1 + ch.choose(12) as i64, 1 + ch.choose(12) as i64);
                    let (d1, d2) = (*ch.pick(&[1i64, 15, 28]), *ch.pick(&[1i64, 15, 28]));
                    let (y1, y2) = *ch.pick(&[(2021i64, 2021i64), (1999, 2021)]);
                    let short = ch.flag();
                    let name = |m: i64| {
                        let ns = month_names(&l, m);
                        let pick = if short { ns.iter().min_by_key(|n| n.chars().count()) } else { ns.iter().max_by_key(|n| n.chars().count()) };
                        pick.cloned().unwrap_or_default()
                    };
                    let a = format!("{} {} {}", d1, name(m1), y1);
                    let b = format!("{} {} {}", d2, name(m2), y2);
                    let text = if l == "tr" { format!("{} {} arası", a, b) } else { format!("{} to {}", a, b) };
                    let days = (cal::days_from_civil(y1, m1, d1) - cal::days_from_civil(y2, m2, d2)).abs();
                    Some(LineCase::new(text, Expect::Value(Val::Duration(days * 86400), 0.0), "difference-names").with_lang(&l))
                },
            ));
        }
        // day words -------------------------------------------------------------------------------
        {
            let langs = langs.clone();
            let mut clocks: Vec<i64> = Vec::new();
            let years: Vec<i64> = tier.pick(vec![2024], vec![2023, 2024, 2025, 2100]);
            for y in years.iter() {
                for m in 1..=12 {
                    for d in 1..=cal::days_in_month(*y, m) {
                        if tier == Tier::Thorough || d <= 2 || d >= 27 {
                            clocks.push(cal::days_from_civil(*y, m, d) * 86400 + 12 * 3600);
                        }
                    }
                }
            }
            // the very first and last second of a day
            clocks.push(cal::days_from_civil(2025, 12, 31) * 86400 + 86399);
            clocks.push(cal::days_from_civil(2026, 1, 1) * 86400);
            f.push(Family::new(
                "day-words",
                Mode::Full,
                &format!("today / tomorrow / yesterday (every configured spelling of every language) under {} clock instants (days of {:?}, first and last second of a year): consecutive calendar days around the clock's UTC date", clocks.len(), years),
                move |ch| {
                    let l = ch.pick(&langs).clone();
                    let now = *ch.pick(&clocks);
                    let which = ch.choose(3) as i64; // 0 today, 1 tomorrow, 2 yesterday
                    let id = [8u64, 9, 10][which as usize];
                    let mut words: Vec<String> = Vec::new();
                    if let Some(o) = spec().lang(&l)["constant_pair"].as_object() {
                        for (w, n) in o {
                            if n.as_u64() == Some(id) {
                                words.push(w.clone());
                            }
                        }
                    }
                    let w = ch.pick(&words).clone();
                    let today = cal::civil_from_days(now.div_euclid(86400));
                    let want = cal::add_days(today, [0, 1, -1][which as usize]);
                    Some(LineCase::new(w, Expect::Value(date_val(want), 0.0), "day-word").with_lang(&l).with_now(now))
                },
            ));
            // a date kept in a session variable while the default zone of the calculator changes
            f.push(Family::new(
                "difference-after-zone-switch",
                Mode::Full,
                "'x = A' evaluated through a session under default zone Z1, then set_timezone(Z2) on the same calculator, then 'x to B' and 'B to x' on the same session, for A, B over 6 dates (month ends, a leap day, year ends) and Z1, Z2 over [UTC, CET, EST, GMT+5, GMT-12, GMT+14]: still the absolute number of days between the two calendar dates",
                move |ch| {
                    let dates = [(2020i64, 1i64, 1i64), (2020, 1, 3), (2020, 2, 29), (2019, 12, 31), (2021, 3, 1), (1999, 12, 31)];
                    let zones = [None, Some("CET"), Some("EST"), Some("GMT+5"), Some("GMT-12"), Some("GMT+14")];
                    let a = *ch.pick(&dates);
                    let b = *ch.pick(&dates);
                    let z1 = *ch.pick(&zones);
                    let z2 = ch.pick(&zones).unwrap_or("UTC");
                    let reversed = ch.flag();
                    let days = (cal::days_from_civil(a.0, a.1, a.2) - cal::days_from_civil(b.0, b.1, b.2)).abs();
                    let l2 = if reversed { format!("{} to x", dmy(b)) } else { format!("x to {}", dmy(b)) };
                    let cfg = crate::runner::Cfg { tz: z1.map(|s| s.to_string()), ..Default::default() };
                    Some(LineCase::new(format!("x = {}\n{}", dmy(a), l2), Expect::Value(Val::Duration(days * 86400), 0.0), &format!("zone-switch:{}", z2)).with_cfg(cfg))
                },
            ));
            // the three words stay consecutive whatever zone is configured and whatever the time of
            // day is (which calendar day 'today' is under a non-UTC zone is not prescribed: only the
            // differences are compared)
            let mut clocks2: Vec<i64> = Vec::new();
            for (y, m, d) in [(2024, 2, 28), (2024, 2, 29), (2024, 12, 31), (2025, 1, 1), (2025, 6, 15), (2025, 10, 31)] {
                for secs in [0, 1800, 9 * 3600, 12 * 3600, 15 * 3600, 23 * 3600 + 1800, 86399] {
                    clocks2.push(cal::days_from_civil(y, m, d) * 86400 + secs);
                }
            }
            f.push(Family::new(
                "day-words-zones",
                Mode::Full,
                &format!("'yesterday to today', 'today to tomorrow' (1 day), 'yesterday to tomorrow', 'tomorrow to yesterday' (2 days) under default zones [UTC, GMT+14, GMT-12, CET, EST, GMT+5:30] set through set_timezone x {} clock instants (7 times of day incl. the first and last second, around a leap day, a year end and a month end): the three day words are consecutive calendar days in every configuration", clocks2.len()),
                move |ch| {
                    let tz = *ch.pick(&[None, Some("GMT+14"), Some("GMT-12"), Some("CET"), Some("EST"), Some("GMT+5:30")]);
                    let now = *ch.pick(&clocks2);
                    let (text, days) = *ch.pick(&[("yesterday to today", 1i64), ("today to tomorrow", 1), ("yesterday to tomorrow", 2), ("tomorrow to yesterday", 2)]);
                    let cfg = crate::runner::Cfg { tz: tz.map(|s| s.to_string()), ..Default::default() };
                    Some(LineCase::new(text.to_string(), Expect::Value(Val::Duration(days * 86400), 0.0), "day-word-zones").with_cfg(cfg).with_now(now))
                },
            ));
        }
        f
    }

    fn exec(&self, ctx: &mut Ctx, case: &LineCase) -> Verdict {
        if let Some(z2) = case.tag.strip_prefix("zone-switch:") {
            // line 1 on a new session under the configured zone, then set_timezone(z2) on the SAME
            // calculator, then line 2 on the same session; the verdict is about line 2
            let mut lines = case.text.split('\n');
            let (l1, l2) = (lines.next().unwrap_or(""), lines.next().unwrap_or(""));
            let mut calc = ctx.fresh(&case.cfg);
            let mut session = smartcalc::Session::new();
            session.set_language(case.lang.clone());
            let first = crate::obs::eval_session(&calc, &mut session, Some(l1));
            let switched = calc.set_timezone(z2.to_string());
            let second = crate::obs::eval_session(&calc, &mut session, Some(l2));
            let single = LineCase { text: l2.to_string(), ..case.clone() };
            let mut v = super::common::judge(&single, &second);
            v.input = format!("{} ;; set_timezone({}) ;; {}", super::common::input_of(&LineCase { text: l1.to_string(), ..case.clone() }), z2, l2);
            v.evals = 2;
            v.observed = format!("{} ;; {:?} ;; {}", first.brief(), switched.is_ok(), second.brief());
            return v;
        }
        exec_line(ctx, case)
    }

    fn defect_model(&self, name: &str, case: &LineCase, v: &Verdict) -> bool {
        if name != "chunked-date-arithmetic" {
            return false;
        }
        match known_wrong(&case.text) {
            Some(Some(d)) => v.observed.contains(&format!("Date {{ y: {}, m: {}, d: {}, zone: \"UTC\", off: 0 }}", d.0, d.1, d.2)),
            Some(None) => v.observed.ends_with("ERR(Unknown calculation)"),
            None => false,
        }
    }

    fn rule(&self) -> String {
        "cases are all combinations of date, spelling, month-name synonym, letter case, language, offset and clock instant in the stated sets; non-trivial = the calendar model (own proleptic-Gregorian day arithmetic, self-checked against chrono for every day of years 1..9999) predicted a date / day count or required rejection, and it was compared; month/year offsets whose target day does not exist are generated but unspecified; distinct = distinct (language, clock, text)".into()
    }
    fn assumptions(&self) -> Vec<String> {
        vec!["month names are read from config.json per language; the current year is the harness clock's (2026 by default)".into()]
    }
}

// ---- defect model for the known findings ------------------------------------------------
// What the library is known to compute (pinned by executer_test::execute_21..23 and _26): the
// duration is a plain number of seconds; it is split into 365-day chunks applied as calendar
// years, 30-day chunks applied as calendar months (subtraction wraps a non-positive month by
// adding 12 *without* borrowing a year) and a remainder applied as days.

fn parse_duration(s: &str) -> Option<i64> {
    let toks: Vec<&str> = s.split_whitespace().collect();
    if toks.is_empty() || toks.len() % 2 != 0 {
        return None;
    }
    let mut total = 0i64;
    for pair in toks.chunks(2) {
        let n: i64 = pair[0].parse().ok()?;
        let days = match pair[1] {
            "day" | "days" => {
                let y = n / 365;
                365 * y + ((n % 365) / 30) * 30 + (n % 365) % 30
            }
            "week" | "weeks" => 7 * n,
            "month" | "months" => 365 * (n / 12) + 30 * (n % 12),
            "year" | "years" => 365 * n,
            _ => return None,
        };
        total += days * 86400;
    }
    Some(total)
}

fn parse_base(s: &str) -> Option<D> {
    let s = s.trim();
    if let Some((d, rest)) = s.split_once('/') {
        let (m, y) = rest.split_once('/')?;
        return Some((y.parse().ok()?, m.parse().ok()?, d.parse().ok()?));
    }
    let toks: Vec<&str> = s.split_whitespace().collect();
    if toks.len() == 3 {
        let d: i64 = toks[0].parse().ok()?;
        let y: i64 = toks[2].parse().ok()?;
        for m in 1..=12 {
            if month_names("en", m).iter().any(|n| n == toks[1]) {
                return Some((y, m, d));
            }
        }
    }
    None
}

/// Some(Some(date)) / Some(None) (= 'Unknown calculation') if the text is one of the generated
/// arithmetic forms, None otherwise
fn known_wrong(text: &str) -> Option<Option<D>> {
    let (dur_text, line) = match text.split_once('\n') {
        Some((first, second)) => {
            let d = first.strip_prefix("v = ")?;
            (Some(d.to_string()), second.to_string())
        }
        None => (None, text.to_string()),
    };
    let (base_s, op, rest) = if let Some(i) = line.find(" + ") {
        (&line[..i], '+', &line[i + 3..])
    } else if let Some(i) = line.find(" - ") {
        (&line[..i], '-', &line[i + 3..])
    } else {
        return None;
    };
    let base = parse_base(base_s)?;
    let secs = match (&dur_text, rest) {
        (Some(d), "v") => parse_duration(d)?,
        (None, r) => parse_duration(r)?,
        _ => return None,
    };
    const YEAR: i64 = 365 * 86400;
    const MONTH: i64 = 30 * 86400;
    let mut date = base;
    let mut dur = secs;
    let years = dur / YEAR;
    if years > 0 {
        let y = if op == '+' { date.0 + years } else { date.0 - years };
        date = (y, date.1, date.2);
        dur -= years * YEAR;
    }
    let months = dur / MONTH;
    if months > 0 {
        let (y, m) = if op == '+' {
            let total = (date.1 - 1) + months;
            (date.0 + total / 12, total % 12 + 1)
        } else {
            let y = date.0 - months / 12;
            let mut m = date.1 - months % 12;
            if m <= 0 {
                m += 12;
            }
            (y, m)
        };
        date = (y, m, date.2);
        dur -= months * MONTH;
    }
    // the date is built once, after the year and the month step
    if !cal::valid(date.0, date.1, date.2) {
        return Some(None);
    }
    let days = dur / 86400;
    Some(Some(cal::add_days(date, if op == '+' { days } else { -days })))
}
