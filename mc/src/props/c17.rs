//! C17 — highlight (UI) tokens are well-formed character spans.

use super::seqs::{self, SeqCase};
use crate::explore::{Family, Mode, Verdict};
use crate::obs::{self, Run};
use crate::runner::{Cfg, Ctx, Prop, Tier};
use crate::seam;
use serde::{Deserialize, Serialize};

pub struct C17;

#[derive(Clone, Debug, Serialize, Deserialize)]
pub struct Case {
    pub seq: SeqCase,
    /// tokens that must be present: (start, end, kind) in characters
    #[serde(default)]
    pub must: Vec<(usize, usize, String)>,
    /// calculator with a user-defined unit 'qq' (readable as '5 qq' and 'qq 5')
    #[serde(default, skip_serializing_if = "std::ops::Not::not")]
    pub user_unit: bool,
}

/// structural well-formedness of one line's tokens
pub fn well_formed(line: &str, ui: &[(usize, usize, String)]) -> Result<(), String> {
    let nchars = line.chars().count();
    let mut prev_end = 0usize;
    let mut prev_start = 0usize;
    for (i, (s, e, k)) in ui.iter().enumerate() {
        if !(s < e) {
            return Err(format!("empty or reversed token: token {} ({}, {}, {})", i, s, e, k));
        }
        if *e > nchars {
            return Err(format!("token ends beyond the characters of the line (byte offset?): token {} ({}, {}, {}), line has {} characters", i, s, e, k, nchars));
        }
        if i > 0 {
            if *s < prev_start {
                return Err(format!("tokens not ordered by start: token {} ({}, {}, {})", i, s, e, k));
            }
            if *s < prev_end {
                return Err(format!("tokens overlap: token {} ({}, {}, {}) starts before its predecessor ends at {}", i, s, e, k, prev_end));
            }
        }
        prev_end = *e;
        prev_start = *s;
    }
    Ok(())
}

impl Prop for C17 {
    type Case = Case;
    fn id(&self) -> &'static str {
        "C17"
    }

    fn families(&self, tier: Tier) -> Vec<Family<Case>> {
        let mut f: Vec<Family<Case>> = Vec::new();
        for fam in seqs::families(tier) {
            let gen = fam.gen;
            f.push(Family { name: fam.name, mode: fam.mode, bounds: fam.bounds, gen: Box::new(move |ch| gen(ch).map(|s| Case { seq: s, must: Vec::new(), user_unit: false })) });
        }
        // the single-line generators of C01 that do not depend on a configuration: boundary values of
        // every kind combined by operators, every word of config.json in 7 positions, all unit pairs
        {
            use crate::runner::Prop as _;
            for fam in super::c01::C01.families(tier) {
                if !["binary-boundaries", "config-words", "config-unit-pairs", "rule-patterns"].contains(&fam.name.as_str()) {
                    continue;
                }
                let gen = fam.gen;
                f.push(Family {
                    name: fam.name,
                    mode: fam.mode,
                    bounds: format!("{} (the C01 generator, here with the structural oracle on the highlight tokens)", fam.bounds),
                    gen: Box::new(move |ch| gen(ch).map(|c| Case { seq: SeqCase { lang: c.lang, text: c.text, now: c.now }, must: Vec::new(), user_unit: false })),
                });
            }
        }
        // position-tagged lines: arithmetic embedded in multi-byte text words, followed by a comment
        f.push(Family::new(
            "tagged",
            Mode::Full,
            "lines '<word> <lit> <op> <lit> <word> # <comment>' with words from [none, abc, şişe, 日本, 😀😀, İı] (multi-byte before and between tokens), literals from [7, 12,5, 1.000, -3, 0x1F, 0XFF, 0b101, 0o17], operators + - * /, comments from [none, c, ş 5, 日本 december, toplam tutarı, é, 😀] (also ending in a multi-byte character at the end of the line), tokens separated by a space, NBSP, U+3000 or U+2009: each number literal (prefix and sign included), each operator and the comment is reported with its own kind covering exactly its characters",
            move |ch| {
                let words = ["", "abc", "şişe", "日本", "😀😀", "İı"];
                let lits = ["7", "12,5", "1.000", "-3", "0x1F", "0XFF", "0b101", "0o17"];
                let comments = ["", "c", "ş 5", "日本 december", "toplam tutarı", "é", "😀"];
                // the blank between tokens: a plain space, or a multi-byte white-space character
                let blank = *ch.pick(&[" ", "\u{a0}", "\u{3000}", "\u{2009}"]);
                let w1 = *ch.pick(&words);
                let a = *ch.pick(&lits);
                let op = *ch.pick(&["+", "-", "*", "/"]);
                let b = *ch.pick(&lits);
                let w2 = *ch.pick(&words);
                let cm = *ch.pick(&comments);
                let mut text = String::new();
                let mut must = Vec::new();
                let mut pos = 0usize;
                let push = |text: &mut String, pos: &mut usize, s: &str| {
                    text.push_str(s);
                    *pos += s.chars().count();
                };
                if !w1.is_empty() {
                    push(&mut text, &mut pos, w1);
                    push(&mut text, &mut pos, blank);
                }
                must.push((pos, pos + a.chars().count(), "Number".to_string()));
                push(&mut text, &mut pos, a);
                push(&mut text, &mut pos, blank);
                must.push((pos, pos + 1, "Operator".to_string()));
                push(&mut text, &mut pos, op);
                push(&mut text, &mut pos, blank);
                must.push((pos, pos + b.chars().count(), "Number".to_string()));
                push(&mut text, &mut pos, b);
                if !w2.is_empty() {
                    push(&mut text, &mut pos, blank);
                    push(&mut text, &mut pos, w2);
                }
                if !cm.is_empty() {
                    push(&mut text, &mut pos, blank);
                    let c = format!("# {}", cm);
                    must.push((pos, pos + c.chars().count(), "Comment".to_string()));
                    push(&mut text, &mut pos, &c);
                }
                Some(Case { seq: SeqCase { lang: "en".into(), text, now: None }, must, user_unit: false })
            },
        ));
        f.push(Family::new(
            "case-length-and-long-lines",
            Mode::Full,
            "(a) a word whose letters change their UTF-8 length when their case changes (İİ, ıı, İı, ß, ǅ, ŉ, ΐ) in front of '12 january 2020', '10:00 EST + 7', 'GMT 5', '12 DECEMBER 2020 + 3': the month name, zone name and every number are reported at their own character positions; (b) long lines '1 + 1 + ... + 3 km' with 60, 127, 128, 129, 200, 300 numbers (the unit word is retagged behind more than 127 / 255 other tokens), also with a variable use at the end: every number and operator keeps its token",
            move |ch| {
                let n = |s: &str| s.chars().count();
                if ch.flag() {
                    let w = *ch.pick(&["İİ", "ıı", "İı", "ß", "ǅ", "ŉ", "ΐ"]);
                    let p = n(w) + 1;
                    let (tail, must): (&str, Vec<(usize, usize, &str)>) = match ch.choose(4) {
                        0 => ("12 january 2020", vec![(p, p + 2, "Number"), (p + 3, p + 10, "Month"), (p + 11, p + 15, "Number")]),
                        1 => ("10:00 EST + 7", vec![(p + 6, p + 9, "Symbol1"), (p + 10, p + 11, "Operator"), (p + 12, p + 13, "Number")]),
                        2 => ("GMT 5", vec![(p, p + 3, "Symbol1"), (p + 4, p + 5, "Number")]),
                        _ => ("12 DECEMBER 2020 + 3", vec![(p, p + 2, "Number"), (p + 3, p + 11, "Month"), (p + 12, p + 16, "Number"), (p + 17, p + 18, "Operator"), (p + 19, p + 20, "Number")]),
                    };
                    let text = format!("{} {}", w, tail);
                    let must = must.into_iter().map(|(a, b, k)| (a, b, k.to_string())).collect();
                    Some(Case { seq: SeqCase { lang: "en".into(), text, now: None }, must, user_unit: false })
                } else {
                    let k = *ch.pick(&[60usize, 127, 128, 129, 200, 300]);
                    let with_var = ch.flag();
                    let mut text = String::new();
                    let mut must = Vec::new();
                    if with_var {
                        text.push_str("v = 2\n");
                    }
                    let base = 0usize; // positions are per line: the long line is the last line
                    let mut pos = base;
                    for i in 0..k {
                        must.push((pos, pos + 1, "Number".to_string()));
                        text.push('1');
                        pos += 1;
                        if i + 1 < k || true {
                            text.push_str(" + ");
                            must.push((pos + 1, pos + 2, "Operator".to_string()));
                            pos += 3;
                        }
                    }
                    if with_var {
                        text.push('v');
                    } else {
                        must.push((pos, pos + 1, "Number".to_string()));
                        text.push_str("3 km");
                    }
                    Some(Case { seq: SeqCase { lang: "en".into(), text, now: None }, must, user_unit: false })
                }
            },
        ));
        f.push(Family::new(
            "glued-operators",
            Mode::Full,
            "number literals written directly onto '*', '/', '(' and ')' without blanks: 'A*B', 'A/B', '(A)', '2*(B)', 'ö *B # ₺' for A, B in [7, 12,5, 0x1F, 0XFF, 0xAF, 0x1aed, 0x2bbd, 0xCD, 0b101, 0o17, 1.000] (hex literals whose tail reads as digits plus a currency code included): each literal is one Number token covering exactly its characters",
            move |ch| {
                let lits = ["7", "12,5", "0x1F", "0XFF", "0xAF", "0x1aed", "0x2bbd", "0xCD", "0b101", "0o17", "1.000"];
                let a = *ch.pick(&lits);
                let b = *ch.pick(&lits);
                let n = |s: &str| s.chars().count();
                let (text, must): (String, Vec<(usize, usize, String)>) = match ch.choose(5) {
                    0 => (format!("{}*{}", a, b), vec![(0, n(a), "Number".into()), (n(a), n(a) + 1, "Operator".into()), (n(a) + 1, n(a) + 1 + n(b), "Number".into())]),
                    1 => (format!("{}/{}", a, b), vec![(0, n(a), "Number".into()), (n(a), n(a) + 1, "Operator".into()), (n(a) + 1, n(a) + 1 + n(b), "Number".into())]),
                    2 => (format!("({})", a), vec![(1, 1 + n(a), "Number".into())]),
                    3 => (format!("2*({})", b), vec![(0, 1, "Number".into()), (3, 3 + n(b), "Number".into())]),
                    _ => (format!("ö *{} # ₺", b), vec![(3, 3 + n(b), "Number".into())]),
                };
                Some(Case { seq: SeqCase { lang: "en".into(), text, now: None }, must, user_unit: false })
            },
        ));
        f.push(Family::new(
            "bom-and-user-units",
            Mode::Full,
            "lines '[BOM]<lead><a> <op> <b>[ # c]' where <lead> is nothing or a multi-byte word, <a> / <b> are a number, a user-unit quantity written value-first ('5 qq') or unit-first ('qq 5') or a built-in quantity ('3 km'), optionally with U+FEFF as the very first character of the text: every number literal and operator is reported at its own character positions (positions count the BOM)",
            move |ch| {
                let bom = ch.flag();
                let lead = *ch.pick(&["", "ş", "日本"]);
                let forms = ["5", "5 qq", "qq 5", "3 km", "12,5"];
                let a = *ch.pick(&forms);
                let b = *ch.pick(&forms);
                let op = *ch.pick(&["+", "*"]);
                let comment = ch.flag();
                let mut text = String::new();
                let mut must = Vec::new();
                if bom {
                    text.push('\u{feff}');
                }
                if !lead.is_empty() {
                    text.push_str(lead);
                    text.push(' ');
                }
                let mut put = |text: &mut String, form: &str, must: &mut Vec<(usize, usize, String)>| {
                    // the number literal inside the form
                    let start = text.chars().count();
                    let (pre, lit) = if let Some(rest) = form.strip_prefix("qq ") { ("qq ".chars().count(), rest) } else { (0, form.split(' ').next().unwrap()) };
                    must.push((start + pre, start + pre + lit.chars().count(), "Number".to_string()));
                    text.push_str(form);
                };
                put(&mut text, a, &mut must);
                text.push(' ');
                let p = text.chars().count();
                must.push((p, p + 1, "Operator".to_string()));
                text.push_str(op);
                text.push(' ');
                put(&mut text, b, &mut must);
                if comment {
                    text.push_str(" # şöyle");
                }
                Some(Case { seq: SeqCase { lang: "en".into(), text, now: None }, must, user_unit: true })
            },
        ));
        f.push(Family::new(
            "trailing-separators",
            Mode::Full,
            "lines '<word> <lit><sep> <lit><sep>' with words from [none, abc, ş, şşş, ölçüler, 日本], integer literals [10, 2, 1250] (a fraction followed by another separator is not a number literal), separators [',', '.', ';' or none] after each literal: every literal is reported as a Number token that starts at its first character (a swallowed trailing separator may extend it by one), also behind multi-byte words",
            move |ch| {
                let w = *ch.pick(&["", "abc", "ş", "şşş", "ölçüler", "日本"]);
                let mut text = String::new();
                let mut must = Vec::new();
                if !w.is_empty() {
                    text.push_str(w);
                    text.push(' ');
                }
                let n = 1 + ch.choose(3);
                for i in 0..n {
                    let lit = *ch.pick(&["10", "2", "1250"]);
                    let sep = *ch.pick(&[",", ".", ";", ""]);
                    let start = text.chars().count();
                    must.push((start, start + lit.chars().count(), "Number~".to_string()));
                    text.push_str(lit);
                    text.push_str(sep);
                    if i + 1 < n {
                        text.push(' ');
                    }
                }
                Some(Case { seq: SeqCase { lang: "en".into(), text, now: None }, must, user_unit: false })
            },
        ));
        f
    }

    fn exec(&self, ctx: &mut Ctx, c: &Case) -> Verdict {
        seam::set_now(c.seq.now.unwrap_or(seam::DEFAULT_NOW));
        let cfg = if c.user_unit { Cfg { user_unit: Some((2, true, true)), ..Default::default() } } else { Cfg::default() };
        let run = obs::eval(ctx.calc(&cfg), &c.seq.lang, &c.seq.text);
        seam::set_now(seam::DEFAULT_NOW);
        let mut input = String::new();
        if c.seq.lang != "en" {
            input.push_str(&format!("[lang={}]", c.seq.lang));
        }
        input.push_str(&c.seq.text);
        let mut v = Verdict { input, class: "tokens-checked", compared: true, expected: "0 <= start < end <= chars, sorted, non-overlapping".into(), evals: 1, ..Default::default() };
        match &run {
            Run::Panic(p) => {
                // totality is C01's concern; a line that panics has no tokens to check
                v.class = "no-tokens(panic)";
                v.compared = false;
                v.observed = format!("PANIC[{}]", p.site);
            }
            Run::Done(o) => {
                let lines = super::c01::segments(&c.seq.text);
                v.observed = format!("{:?}", o.ui);
                if o.ui.len() != lines.len() {
                    v.class = "no-tokens(shape)";
                    v.compared = false;
                    return v;
                }
                let mut any = false;
                for (line, ui) in lines.iter().zip(o.ui.iter()) {
                    if !ui.is_empty() {
                        any = true;
                    }
                    if let Err(e) = well_formed(line, ui) {
                        v.violation = Some(e);
                        return v;
                    }
                }
                if !any {
                    v.class = "no-tokens";
                }
                if !c.must.is_empty() {
                    v.class = "tokens-and-positions-checked";
                    v.expected = format!("{} ; contains {:?}", v.expected, c.must);
                    for m in c.must.iter() {
                        // "Number~": a Number token that starts exactly there and ends at the literal's
                        // end or one character later (a trailing separator may be swallowed)
                        // (the tagged line is the last line of the text)
                        let line_ui = match o.ui.last() {
                            Some(u) => u,
                            None => break,
                        };
                        let present = if m.2 == "Number~" { line_ui.iter().any(|t| t.2 == "Number" && t.0 == m.0 && (t.1 == m.1 || t.1 == m.1 + 1)) } else { line_ui.iter().any(|t| t == m) };
                        if !present {
                            v.violation = Some(format!("expected token missing: {:?}", m));
                            return v;
                        }
                    }
                }
            }
        }
        v
    }

    fn rule(&self) -> String {
        "cases are the atom sequences of C01 (every sequence within the stated bounds, in particular multi-byte atoms before, inside and after tokens) plus position-tagged arithmetic lines; non-trivial = the line returned and its token list was checked against the structural predicate (and, for tagged lines, against the expected Number/Operator/Comment spans); distinct = distinct (language, text)".into()
    }
    fn min_outcomes(&self, _: Tier) -> u64 {
        50
    }
}
