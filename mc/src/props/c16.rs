//! C16 — blanks, comments and letter case of keywords never change a value.

use crate::corpus::{self, T};
use crate::explore::{Chooser, Family, Mode, Verdict};
use crate::lit::Conv;
use crate::obs::{self, Run, Slot};
use crate::runner::{Cfg, Ctx, Prop, Tier};
use serde::{Deserialize, Serialize};

pub struct C16;

#[derive(Clone, Copy, Debug, Serialize, Deserialize, PartialEq)]
pub enum Cls {
    Cur,
    Month,
    Zone,
    Kw,
    Var,
    All,
}

#[derive(Clone, Debug, Serialize, Deserialize)]
pub enum Rw {
    /// n blanks in gap `which` (usize::MAX = every gap)
    Gap(usize, usize),
    Lead(usize),
    Trail(usize),
    LeadTrail(usize),
    /// " # text" appended to the last line
    Comment(String),
    /// "# text" as a line of its own in front
    CommentLine(String),
    /// letter case of one token class: 0 lower, 1 UPPER, 2 Capitalised, 3 aLtErNaTiNg
    Case(Cls, u8),
    /// both at once: the case rewriting and an appended comment
    CaseAndComment(Cls, u8, String),
}

#[derive(Clone, Debug, Serialize, Deserialize)]
pub enum Case {
    Rewrite(Vec<T>, Rw),
    /// a line of blanks and/or a comment only: must evaluate to nothing
    Nothing(String),
    /// (all-lower-case program, the same program with every occurrence of the variable name in
    /// its own letter case): same values line by line
    VarProgram(String, String),
    /// (one-blank rendering, the same tokens with other gaps - possibly none - around operators and
    /// parentheses): same last slot, in both directions (an error on one side only is a difference)
    Spacing(String, String),
    /// (language, lower-case line, re-cased line): same value
    LangLine(String, String, String),
}

fn recase(s: &str, how: u8) -> String {
    match how {
        0 => s.to_lowercase(),
        1 => s.to_uppercase(),
        2 => {
            let mut c = s.chars();
            match c.next() {
                Some(f) => f.to_uppercase().collect::<String>() + &c.as_str().to_lowercase(),
                None => String::new(),
            }
        }
        _ => s.chars().enumerate().map(|(i, c)| if i % 2 == 1 { c.to_uppercase().collect::<String>() } else { c.to_lowercase().collect::<String>() }).collect(),
    }
}

fn apply_case(ts: &[T], cls: Cls, how: u8) -> Vec<T> {
    let mut seen_nl = false;
    ts.iter()
        .map(|t| {
            if matches!(t, T::NL) {
                seen_nl = true;
            }
            match t {
                T::Cur(w) if cls == Cls::Cur || cls == Cls::All => T::Cur(recase(w, how)),
                T::Month(w) if cls == Cls::Month || cls == Cls::All => T::Month(recase(w, how)),
                T::Zone(w) if cls == Cls::Zone || cls == Cls::All => T::Zone(recase(w, how)),
                T::Kw(w) if cls == Cls::Kw || cls == Cls::All => T::Kw(recase(w, how)),
                // only the *uses* of a variable are re-cased; the definition keeps its spelling
                T::Var(w) if (cls == Cls::Var || cls == Cls::All) && seen_nl => T::Var(recase(w, how)),
                other => other.clone(),
            }
        })
        .collect()
}

fn has_class(ts: &[T], cls: Cls) -> bool {
    ts.iter().any(|t| match (t, cls) {
        (T::Cur(_), Cls::Cur) | (T::Month(_), Cls::Month) | (T::Zone(_), Cls::Zone) | (T::Kw(_), Cls::Kw) | (T::Var(_), Cls::Var) => true,
        (T::Cur(_) | T::Month(_) | T::Zone(_) | T::Kw(_) | T::Var(_), Cls::All) => true,
        _ => false,
    })
}

const COMMENT_ATOMS: [&str; 17] = ["c", "5", "12", "december", "dec", "2020", "usd", "11:30", "=", "%", "+", "EST", "to", "hex", "[NUMBER:5]", "ş", "#"];

fn comment_text(ch: &mut Chooser, maxlen: usize) -> String {
    let n = 1 + ch.choose(maxlen);
    let mut parts = Vec::new();
    for _ in 0..n {
        parts.push(*ch.pick(&COMMENT_ATOMS));
    }
    parts.join(" ")
}

fn rewrite_text(ts: &[T], rw: &Rw) -> String {
    let conv = Conv::default_lib();
    match rw {
        Rw::Gap(which, n) => {
            let (w, n) = (*which, *n);
            corpus::render_with(ts, &conv, &move |i| if w == usize::MAX || w == i { n } else { 1 }, 0, 0)
        }
        Rw::Lead(n) => corpus::render_with(ts, &conv, &|_| 1, *n, 0),
        Rw::Trail(n) => corpus::render_with(ts, &conv, &|_| 1, 0, *n),
        Rw::LeadTrail(n) => corpus::render_with(ts, &conv, &|_| 2, *n, *n),
        // an empty first atom marks the glued form: '<line>#<text>' without a blank in front of '#'
        Rw::Comment(c) if c.starts_with('\u{1}') => format!("{}#{}", corpus::render(ts, &conv), &c[1..]),
        Rw::Comment(c) => format!("{} # {}", corpus::render(ts, &conv), c),
        Rw::CommentLine(c) => format!("# {}\n{}", c, corpus::render(ts, &conv)),
        Rw::Case(cls, how) => corpus::render(&apply_case(ts, *cls, *how), &conv),
        Rw::CaseAndComment(cls, how, c) => format!("{} # {}", corpus::render(&apply_case(ts, *cls, *how), &conv), c),
    }
}

impl Prop for C16 {
    type Case = Case;
    fn id(&self) -> &'static str {
        "C16"
    }

    fn families(&self, tier: Tier) -> Vec<Family<Case>> {
        let mut f = Vec::new();
        let lines = corpus::lines();
        let nl = lines.len();
        {
            let lines = lines.clone();
            f.push(Family::new(
                "blanks",
                Mode::Full,
                &format!("{} corpus lines x (every single gap doubled or tripled, every gap doubled / tripled, 1..=3 leading blanks, 1..=3 trailing blanks, both with all gaps doubled)", nl),
                move |ch| {
                    let (_, ts) = ch.pick(&lines).clone();
                    let kind = ch.choose(5);
                    let rw = match kind {
                        0 => {
                            let gap = 1 + ch.choose(ts.len().max(2) - 1);
                            Rw::Gap(gap, 2 + ch.choose(2))
                        }
                        1 => Rw::Gap(usize::MAX, 2 + ch.choose(2)),
                        2 => Rw::Lead(1 + ch.choose(3)),
                        3 => Rw::Trail(1 + ch.choose(3)),
                        _ => Rw::LeadTrail(1 + ch.choose(3)),
                    };
                    Some(Case::Rewrite(ts, rw))
                },
            ));
        }
        {
            let lines = lines.clone();
            f.push(Family::new(
                "case",
                Mode::Full,
                "corpus lines x token class (currency codes/aliases, month names, zone names, connective keywords, variable uses, all at once) x (lower, UPPER, Capitalised, aLtErNaTiNg)",
                move |ch| {
                    let (_, ts) = ch.pick(&lines).clone();
                    let cls = *ch.pick(&[Cls::Cur, Cls::Month, Cls::Zone, Cls::Kw, Cls::Var, Cls::All]);
                    let how = ch.choose(4) as u8;
                    if !has_class(&ts, cls) {
                        return None;
                    }
                    Some(Case::Rewrite(ts, Rw::Case(cls, how)))
                },
            ));
        }
        {
            let lines = lines.clone();
            f.push(Family::new(
                "case-and-comment",
                Mode::Full,
                "corpus lines x token class x (lower, UPPER, Capitalised) combined with an appended comment from [c, yıl sonu, kasım, ŉ x, İstanbul, ǅ] - characters whose upper- or lower-case form has another byte length, which must not disturb the case handling of the keywords in front of them",
                move |ch| {
                    let (_, ts) = ch.pick(&lines).clone();
                    let cls = *ch.pick(&[Cls::Cur, Cls::Month, Cls::Zone, Cls::Kw, Cls::All]);
                    let how = ch.choose(3) as u8;
                    if !has_class(&ts, cls) {
                        return None;
                    }
                    let c = *ch.pick(&["c", "yıl sonu", "kasım", "ŉ x", "İstanbul", "ǅ"]);
                    Some(Case::Rewrite(ts, Rw::CaseAndComment(cls, how, c.to_string())))
                },
            ));
        }
        {
            let lines = lines.clone();
            f.push(Family::new(
                "comments-2",
                Mode::Full,
                &format!("{} corpus lines x ' # <text>' appended and '# <text>' as a line in front, <text> = every sequence of 1..=2 atoms over {:?}", nl, COMMENT_ATOMS),
                move |ch| {
                    let (_, ts) = ch.pick(&lines).clone();
                    let whole_line = ch.flag();
                    let text = comment_text(ch, 2);
                    Some(Case::Rewrite(ts, if whole_line { Rw::CommentLine(text) } else { Rw::Comment(text) }))
                },
            ));
        }
        {
            let lines = lines.clone();
            f.push(Family::new(
                "comments-glued",
                Mode::Full,
                &format!("{} corpus lines x '#<text>' written directly onto the last token, without a blank in front of '#', <text> in [the full price, 5 %, x, toplantı, about 9 euro, sum, times 2 minus tax] (operator words and a currency alias inside the comment), also behind a blank: same value as without the comment", nl),
                move |ch| {
                    let (_, ts) = ch.pick(&lines).clone();
                    // also comments that contain an operator word or a currency alias of the language
                    let text = *ch.pick(&["the full price", "5 %", "x", "toplantı", "about 9 euro", "sum", "times 2 minus tax"]);
                    if ch.flag() {
                        Some(Case::Rewrite(ts, Rw::Comment(format!("\u{1}{}", text))))
                    } else {
                        Some(Case::Rewrite(ts, Rw::Comment(text.to_string())))
                    }
                },
            ));
        }
        {
            let some: Vec<Vec<T>> = lines.iter().filter(|(tag, _)| tier == Tier::Thorough || ["arith", "date", "money"].contains(tag)).map(|(_, t)| t.clone()).step_by(tier.pick(3, 1)).collect();
            let n = some.len();
            f.push(Family::new(
                "comments-3",
                Mode::Full,
                &format!("{} corpus lines x ' # <text>' appended, <text> = every sequence of exactly 3 atoms", n),
                move |ch| {
                    let ts = ch.pick(&some).clone();
                    let a = *ch.pick(&COMMENT_ATOMS);
                    let b = *ch.pick(&COMMENT_ATOMS);
                    let c = *ch.pick(&COMMENT_ATOMS);
                    Some(Case::Rewrite(ts, Rw::Comment(format!("{} {} {}", a, b, c))))
                },
            ));
        }
        f.push(Family::new(
            "month-case-all-languages",
            Mode::Full,
            "'12 <month> 2021' and '<month> 12, 2021' style dates for every configured month name (long, short, every synonym) of every configured language, the name written lower, UPPER, Capitalised and aLtErNaTiNg (names containing a dotless i are left out: their upper-case form belongs to a locale-specific case pair): same date as the lower-case spelling",
            move |ch| {
                let langs = crate::spec::spec().languages.clone();
                let l = ch.pick(&langs).clone();
                let m = 1 + ch.choose(12) as i64;
                let names = super::c09::month_names(&l, m);
                let name = ch.pick(&names).clone();
                let how = 1 + ch.choose(3) as u8;
                if name.contains('ı') || name.contains('İ') {
                    return None;
                }
                let re = recase(&name, how);
                Some(Case::LangLine(l, format!("12 {} 2021", name.to_lowercase()), format!("12 {} 2021", re)))
            },
        ));
        {
            let mut codes: Vec<String> = crate::spec::spec().currencies.keys().cloned().collect();
            for (alias, _) in crate::spec::spec().currency_alias.iter() {
                if alias.chars().all(|c| c.is_alphabetic()) && !codes.contains(alias) {
                    codes.push(alias.clone());
                }
            }
            codes.sort();
            let nc = codes.len();
            f.push(Family::new(
                "currency-case-all",
                Mode::Full,
                &format!("'10 <code>', '3 <code> + 2 <code>' and '10 usd to <code>' for every one of the {} configured currency codes and alias words (also the codes that are English words: all, cup, pen, top, mad ...), the code written UPPER, Capitalised and aLtErNaTiNg: same value as the lower-case spelling", nc),
                move |ch| {
                    let code = ch.pick(&codes).clone();
                    let how = 1 + ch.choose(3) as u8;
                    let re = recase(&code, how);
                    if re == code || re.to_lowercase() != code {
                        return None; // no cased letters, or a letter whose case pair is not one-to-one
                    }
                    let (a, b) = match ch.choose(3) {
                        0 => (format!("10 {}", code), format!("10 {}", re)),
                        1 => (format!("3 {} + 2 {}", code, code), format!("3 {} + 2 {}", re, recase(&code, 1))),
                        _ => (format!("10 usd to {}", code), format!("10 usd to {}", re)),
                    };
                    Some(Case::LangLine("en".into(), a, b))
                },
            ));
        }
        f.push(Family::new(
            "operator-gaps",
            Mode::Full,
            "lines whose token boundaries are unambiguous without blanks (an operator or a parenthesis on one side): '10 / foo + 2', '$25 / hour * 14', 'x = 100 / x / item', '2 * ( 3 + 4 ) - 5', '200 - 10%', '15% / foo', '1024 / 8 / 2', '3 km + 2 km', '12,5 usd * 2', '( 1 + 2 ) * ( 3 + 4 )', 'x = 7 / x * 2 / y', numeric dates '12 / 3 / 2021' (also with '+ 2 days', 'to', a variable as the day), a keyword next to a percentage ('200 off %10', '10% of 200') ... with every boundary independently written with 0, 1 or 2 blanks: the same last slot as the one-blank rendering (a value on one side and an error on the other is a difference)",
            move |ch| {
                let lines: [&[&str]; 25] = [
                    // numeric dates: the slashes are tokens of their own
                    &["12", "/", "3", "/", "2021"],
                    &["3", "/", "4", "/", "2021", "+", "2 days"],
                    &["1/1/2021 to 5", "/", "1", "/", "2021"],
                    &["d = 12\nd", "/", "3", "/", "2021"],
                    // a keyword directly next to a percentage: '%' ends / starts the literal
                    &["200 off", "%10"],
                    &["10%", "of 200"],
                    &["40 on", "%25"],
                    &["180 is 10%", "of what"],
                    &["50", "-", "10%"],
                    &["$80", "-", "25%"],
                    &["( 20 + 30 )", "-", "10%"],
                    &["10", "/", "foo", "+", "2"],
                    &["$25", "/", "hour", "*", "14"],
                    &["x = 100\nx", "/", "item"],
                    &["2", "*", "(", "3", "+", "4", ")", "-", "5"],
                    &["200", "-", "10%"],
                    &["15%", "/", "foo"],
                    &["1024", "/", "8", "/", "2"],
                    &["3 km", "+", "2 km"],
                    &["12,5 usd", "*", "2"],
                    &["(", "1", "+", "2", ")", "*", "(", "3", "+", "4", ")"],
                    &["x = 7\nx", "*", "2", "/", "y"],
                    &["$1k", "/", "4", "+", "$2"],
                    &["8", "/", "2", "*", "3"],
                    &["120 usd", "/", "month", "*", "12"],
                ];
                let ts = *ch.pick(&lines);
                let mut spaced = String::new();
                let mut other = String::new();
                let mut same = true;
                for (i, t) in ts.iter().enumerate() {
                    if i > 0 {
                        let g = ch.choose(3);
                        // '- 5' and '-5' are different things only for a sign: never glue '-' or '+' to a following literal
                        let sign_risk = (ts[i - 1] == "-" || ts[i - 1] == "+") && g == 0;
                        let g = if sign_risk { 1 } else { g };
                        same &= g == 1;
                        spaced.push(' ');
                        other.push_str(&" ".repeat(g));
                    }
                    spaced.push_str(t);
                    other.push_str(t);
                }
                if same {
                    return None;
                }
                Some(Case::Spacing(spaced, other))
            },
        ));
        f.push(Family::new(
            "variable-case-programs",
            Mode::Full,
            "programs that bind, re-bind and use one name ('total', 'monthly rent'): 'N = 10 / N = 20 / N + 1', 'N = 1 / N = N + 1 / N * 10', 'N = 5 / x = N * 2 / N = 7 / x + N', every occurrence of the name independently in lower, UPPER or Capitalised case (also the binding occurrences): same values as the all-lower-case program",
            move |ch| {
                let name = *ch.pick(&["total", "monthly rent"]);
                let template = *ch.pick(&["@ = 10\n@ = 20\n@ + 1", "@ = 1\n@ = @ + 1\n@ * 10", "@ = 5\nx = @ * 2\n@ = 7\nx + @"]);
                let parts: Vec<&str> = template.split('@').collect();
                let mut rewritten = String::new();
                for (i, p) in parts.iter().enumerate() {
                    rewritten.push_str(p);
                    if i + 1 < parts.len() {
                        let how = ch.choose(3) as u8;
                        // Capitalised: every word of a multi-word name
                        let w = if how == 2 { name.split(' ').map(|w| recase(w, 2)).collect::<Vec<_>>().join(" ") } else { recase(name, how) };
                        rewritten.push_str(&w);
                    }
                }
                Some(Case::VarProgram(template.replace('@', name), rewritten))
            },
        ));
        f.push(Family::new(
            "nothing",
            Mode::Full,
            "lines made of 0..=3 blanks, optionally followed by '#' + every comment text of 1..=2 atoms, optionally trailing blanks: evaluate to nothing (empty slot)",
            move |ch| {
                let lead = ch.choose(4);
                let with_comment = ch.flag();
                if !with_comment {
                    if lead == 0 {
                        return Some(Case::Nothing(String::new()));
                    }
                    return Some(Case::Nothing(" ".repeat(lead)));
                }
                let glued = ch.flag();
                let text = comment_text(ch, 2);
                let trail = ch.choose(2);
                Some(Case::Nothing(format!("{}#{}{}{}", " ".repeat(lead), if glued { "" } else { " " }, text, " ".repeat(trail))))
            },
        ));
        f
    }

    fn exec(&self, ctx: &mut Ctx, case: &Case) -> Verdict {
        let calc = ctx.calc(&Cfg::default());
        match case {
            Case::Nothing(text) => {
                let run = obs::eval(calc, "en", text);
                let mut v = Verdict { input: format!("{:?}", text), class: "nothing-compared", compared: true, expected: "one empty slot".into(), observed: run.brief(), evals: 1, ..Default::default() };
                match &run {
                    Run::Panic(p) => {
                        v.violation = Some(format!("panic: {}", p.message));
                        v.site = Some(p.site.clone());
                    }
                    Run::Done(o) => {
                        if o.slots.len() != 1 || o.slots[0] != Slot::Empty {
                            v.violation = Some("a line of blanks and/or a comment does not evaluate to nothing".into());
                        }
                    }
                }
                v
            }
            Case::Spacing(original, rewritten) => {
                let a = obs::eval(calc, "en", original);
                let b = obs::eval(calc, "en", rewritten);
                let mut v = Verdict { input: rewritten.replace('\n', " \\n "), class: "rewrite-compared", compared: true, expected: format!("{} -> {}", original.replace('\n', " \\n "), a.brief()), observed: b.brief(), evals: 2, ..Default::default() };
                let last = |r: &Run| match r {
                    Run::Done(o) => o.slots.last().cloned(),
                    _ => None,
                };
                if let Run::Panic(p) = &b {
                    v.site = Some(p.site.clone());
                    v.violation = Some(format!("panic: {}", p.message));
                } else if let Run::Panic(p) = &a {
                    v.site = Some(p.site.clone());
                    v.violation = Some(format!("panic: {}", p.message));
                } else {
                    match (last(&a), last(&b)) {
                        (Some(Slot::Ok { val: va, .. }), Some(Slot::Ok { val: vb, .. })) => {
                            if !obs::val_close(&va, &vb, 1e-12) {
                                v.violation = Some("the number of blanks around an operator changed the value".into());
                            }
                        }
                        (Some(Slot::Ok { .. }), _) | (_, Some(Slot::Ok { .. })) => v.violation = Some("the number of blanks around an operator decides whether the line evaluates".into()),
                        _ => {
                            v.class = "not-evaluable";
                            v.compared = false;
                        }
                    }
                }
                v
            }
            Case::LangLine(lang, original, rewritten) => {
                let a = obs::eval(calc, lang, original);
                let b = obs::eval(calc, lang, rewritten);
                let mut v = Verdict { input: format!("[{}] {}", lang, rewritten), class: "rewrite-compared", compared: true, expected: format!("{} -> {}", original, a.brief()), observed: b.brief(), evals: 2, ..Default::default() };
                match (a.single(), b.single()) {
                    (Some(Slot::Ok { val: va, .. }), Some(Slot::Ok { val: vb, .. })) if obs::val_close(va, vb, 1e-12) => {}
                    (Some(Slot::Ok { .. }), _) => {
                        if let Run::Panic(p) = &b {
                            v.site = Some(p.site.clone());
                        }
                        v.violation = Some("changing the letter case of a month name or currency word changed the value".into());
                    }
                    _ => {
                        v.class = "not-evaluable";
                        v.compared = false;
                    }
                }
                v
            }
            Case::VarProgram(original, rewritten) => {
                let a = obs::eval(calc, "en", original);
                let b = obs::eval(calc, "en", rewritten);
                let mut v = Verdict { input: rewritten.replace('\n', " \\n "), class: "rewrite-compared", compared: true, expected: format!("{} -> {}", original.replace('\n', " \\n "), a.brief()), observed: b.brief(), evals: 2, ..Default::default() };
                match (&a, &b) {
                    (_, Run::Panic(p)) => {
                        v.violation = Some(format!("panic: {}", p.message));
                        v.site = Some(p.site.clone());
                    }
                    (Run::Done(x), Run::Done(y)) => {
                        let all_ok = x.slots.iter().all(|s| matches!(s, Slot::Ok { .. }));
                        if !all_ok {
                            v.class = "not-evaluable";
                            v.compared = false;
                        } else if x.slots.len() != y.slots.len() || !x.slots.iter().zip(y.slots.iter()).all(|(p, q)| matches!((p, q), (Slot::Ok { val: vp, .. }, Slot::Ok { val: vq, .. }) if obs::val_close(vp, vq, 1e-12))) {
                            v.violation = Some("changing the letter case of a variable name changed a value".into());
                        }
                    }
                    _ => {
                        v.class = "not-evaluable";
                        v.compared = false;
                    }
                }
                v
            }
            Case::Rewrite(ts, rw) => {
                let original = corpus::render(ts, &Conv::default_lib());
                let rewritten = rewrite_text(ts, rw);
                let a = obs::eval(calc, "en", &original);
                let b = obs::eval(calc, "en", &rewritten);
                let mut v = Verdict { input: rewritten.replace('\n', " \\n "), class: "rewrite-compared", compared: true, expected: format!("{} -> {}", original.replace('\n', " \\n "), a.brief()), observed: b.brief(), evals: 2, ..Default::default() };
                let vals = |r: &Run| -> Option<Vec<Slot>> {
                    match r {
                        Run::Done(o) if o.status => Some(o.slots.clone()),
                        _ => None,
                    }
                };
                if let Run::Panic(p) = &b {
                    v.violation = Some(format!("panic: {}", p.message));
                    v.site = Some(p.site.clone());
                    return v;
                }
                let (sa, sb) = match (vals(&a), vals(&b)) {
                    (Some(x), Some(y)) => (x, y),
                    _ => {
                        v.class = "not-evaluable";
                        v.compared = false;
                        return v;
                    }
                };
                if !matches!(sa.last(), Some(Slot::Ok { .. })) {
                    v.class = "not-evaluable";
                    v.compared = false;
                    return v;
                }
                // a comment line in front adds one (empty) slot
                let sb: Vec<Slot> = if let Rw::CommentLine(_) = rw {
                    if sb.first() != Some(&Slot::Empty) {
                        v.violation = Some("the comment line does not evaluate to nothing".into());
                        return v;
                    }
                    sb[1..].to_vec()
                } else {
                    sb
                };
                if sa.len() != sb.len() {
                    v.violation = Some("different number of result slots".into());
                    return v;
                }
                for (x, y) in sa.iter().zip(sb.iter()) {
                    let same = match (x, y) {
                        (Slot::Ok { val: vx, .. }, Slot::Ok { val: vy, .. }) => obs::val_close(vx, vy, 1e-12),
                        (Slot::Empty, Slot::Empty) => true,
                        (Slot::Err(_), Slot::Err(_)) => true,
                        _ => false,
                    };
                    if !same {
                        v.violation = Some("the rewriting changed the value".into());
                        return v;
                    }
                }
                v
            }
        }
    }

    fn rule(&self) -> String {
        "cases are all (corpus line, rewriting) pairs within the stated sets: blanks (U+0020 only), appended and whole-line comments whose text is every atom sequence up to the stated length, letter case of one token class at a time and all at once; the original and the rewritten line are both evaluated and their values compared (purely differential); non-trivial = the original line evaluates to a value; distinct = distinct rewritten text".into()
    }
    fn assumptions(&self) -> Vec<String> {
        vec!["the letter case of unit names, duration words, am/pm and atom/field syntax is not varied; '#' is always preceded by a blank when appended to a line".into()]
    }
}
