//! C10 — durations: unit lengths, additivity, greedy printing and 'as' flooring.

use super::common::{exec_line, Expect, LineCase};
use crate::explore::{Family, Mode, Verdict};
use crate::model::duration::{self as dur, Unit, UNITS};
use crate::obs::Val;
use crate::runner::{Ctx, Prop, Tier};
use crate::spec::spec;

pub struct C10;

fn case(text: String, secs: i64, lang: &str, tag: &str) -> LineCase {
    LineCase::new(text, Expect::ValueOut(Val::Duration(secs), dur::print(secs, lang), 0.0), tag).with_lang(lang)
}

impl Prop for C10 {
    type Case = LineCase;
    fn id(&self) -> &'static str {
        "C10"
    }

    fn families(&self, tier: Tier) -> Vec<Family<LineCase>> {
        let mut f = Vec::new();
        let langs = spec().languages.clone();
        // N unit -----------------------------------------------------------------------
        {
            let mut ns: Vec<i64> = match tier {
                Tier::Quick => (0..=130).chain([364, 365, 366, 500, 729, 730, 999, 1000].into_iter()).collect(),
                Tier::Thorough => (0..=10_000).collect(),
            };
            ns.extend([10_000, 100_000, 1_000_000]);
            let mut spell: Vec<(String, Unit, String)> = Vec::new();
            for l in langs.iter() {
                for u in UNITS {
                    for w in dur::spellings(l, u) {
                        spell.push((l.clone(), u, w));
                    }
                }
            }
            let nspell = spell.len();
            f.push(Family::new(
                "n-unit",
                Mode::Full,
                &format!("'N word' for N in {} counts (0..={} and 10^4, 10^5, 10^6) x all {} unit spellings of all configured languages: seconds value and printed greedy decomposition", ns.len(), tier.pick(130, 10_000), nspell),
                move |ch| {
                    let (l, u, w) = ch.pick(&spell).clone();
                    let n = *ch.pick(&ns);
                    Some(case(format!("{} {}", n, w), dur::amount(n, u), &l, "N unit"))
                },
            ));
        }
        // printing: every magnitude ---------------------------------------------------
        {
            let mut mags: Vec<i64> = Vec::new();
            let top = tier.pick(4_000i64, 3_000_000i64);
            mags.extend(0..=top);
            for u in UNITS {
                for k in 1..=tier.pick(40i64, 3000i64) {
                    let m = k * u.len();
                    if m <= tier.pick(3, 120) * dur::YEAR {
                        mags.push(m - 1);
                        mags.push(m);
                        mags.push(m + 1);
                    }
                }
            }
            mags.sort();
            mags.dedup();
            f.push(Family::new(
                "print",
                Mode::Full,
                &format!("'S seconds' for every S in 0..={} and S = k*len(unit)-1, k*len(unit), k*len(unit)+1 for every unit and k up to {} (below 3 / 120 years): printed decomposition is greedy, sums to S, singular/plural correct ({} magnitudes)", top, tier.pick(40, 3000), mags.len()),
                move |ch| {
                    let s = *ch.pick(&mags);
                    Some(case(format!("{} seconds", s), s, "en", "print"))
                },
            ));
        }
        // lists ------------------------------------------------------------------------
        {
            let counts: Vec<i64> = tier.pick(vec![1, 2, 59, 60], vec![1, 2, 11, 12, 13, 29, 30, 59, 60, 61, 365]);
            f.push(Family::new(
                "lists-2-3",
                Mode::Full,
                "lists of 2..=3 parts over all 7 units (English canonical plural words, count-correct singular) x N in [1, 2, 59, 60] (thorough: 11 counts incl. 11, 12, 13, 29, 30, 61, 365), side by side: the value is the sum",
                move |ch| {
                    let n = 2 + ch.choose(2);
                    let mut text = String::new();
                    let mut total = 0i64;
                    for i in 0..n {
                        let u = *ch.pick(&UNITS);
                        let c = *ch.pick(&counts);
                        let (s, p) = u.words("en");
                        if i > 0 {
                            text.push(' ');
                        }
                        text.push_str(&format!("{} {}", c, if c == 1 { s } else { p }));
                        total += dur::amount(c, u);
                    }
                    Some(case(text, total, "en", "list"))
                },
            ));
        }
        f.push(Family::new(
            "lists-many-parts",
            Mode::Full,
            "lists of k parts for every k in 2..=40 and 64, 100: k times '1 second', k times '2 minutes', and the cycle second / minute / hour / day repeated, side by side and joined by '+': the value is the sum whatever the number of parts",
            move |ch| {
                let ks: Vec<usize> = (2..=40).chain([64, 100].into_iter()).collect();
                let k = *ch.pick(&ks);
                let plus = ch.flag();
                let sep = if plus { " + " } else { " " };
                let (parts, total): (Vec<String>, i64) = match ch.choose(3) {
                    0 => ((0..k).map(|_| "1 second".to_string()).collect(), k as i64),
                    1 => ((0..k).map(|_| "2 minutes".to_string()).collect(), 120 * k as i64),
                    _ => {
                        let cyc = [("1 second", 1i64), ("1 minute", 60), ("1 hour", 3600), ("1 day", 86400)];
                        ((0..k).map(|i| cyc[i % 4].0.to_string()).collect(), (0..k).map(|i| cyc[i % 4].1).sum())
                    }
                };
                Some(case(parts.join(sep), total, "en", "many-parts"))
            },
        ));
        f.push(Family::new(
            "as-unit-many-parts",
            Mode::Full,
            "'D as|in|to|into U' for D written as 3, 4, 5 and 7 adjacent parts (every cyclic window of second / minute / hour / day / week / month / year, counts 1, 30 or 100 per part, also three equal parts '100 seconds 100 seconds 100 seconds') and U in seconds / minutes / hours / days / weeks: the SUM is rounded down to whole U",
            move |ch| {
                let order = [Unit::Year, Unit::Month, Unit::Week, Unit::Day, Unit::Hour, Unit::Minute, Unit::Second];
                let k = *ch.pick(&[3usize, 4, 5, 7]);
                let start = ch.choose(7);
                let c = *ch.pick(&[1i64, 30, 100]);
                let equal = ch.flag();
                let mut text = String::new();
                let mut total = 0i64;
                for i in 0..k {
                    let u = if equal { order[(start) % 7] } else { order[(start + i) % 7] };
                    let (sg, pl) = u.words("en");
                    if i > 0 {
                        text.push(' ');
                    }
                    text.push_str(&format!("{} {}", c, if c == 1 { sg } else { pl }));
                    total += dur::amount(c, u);
                }
                let target = *ch.pick(&[Unit::Second, Unit::Minute, Unit::Hour, Unit::Day, Unit::Week]);
                let conn = *ch.pick(&["as", "in", "to", "into"]);
                let want = (total / target.len()) * target.len();
                Some(case(format!("{} {} {}", text, conn, target.words("en").1), want, "en", "as-many"))
            },
        ));
        {
            let maxn = tier.pick(5, 7);
            f.push(Family::new(
                "lists-long",
                Mode::Full,
                &format!("lists of 4..={} parts: every ordered selection of distinct units in descending order and every rotation of it, N in [1, 2]", maxn),
                move |ch| {
                    let n = 4 + ch.choose(maxn - 3);
                    // choose a subset of n units by skipping 7-n of them, then a rotation
                    let order = [Unit::Year, Unit::Month, Unit::Week, Unit::Day, Unit::Hour, Unit::Minute, Unit::Second];
                    let mut chosen: Vec<Unit> = Vec::new();
                    let mut remaining = n;
                    for (i, u) in order.iter().enumerate() {
                        let left = 7 - i;
                        if remaining == 0 {
                            break;
                        }
                        if left == remaining || ch.flag() {
                            chosen.push(*u);
                            remaining -= 1;
                        }
                    }
                    if chosen.len() != n {
                        return None;
                    }
                    let rot = ch.choose(n);
                    chosen.rotate_left(rot);
                    let mut text = String::new();
                    let mut total = 0i64;
                    for (i, u) in chosen.iter().enumerate() {
                        let c = 1 + ch.choose(2) as i64;
                        let (s, p) = u.words("en");
                        if i > 0 {
                            text.push(' ');
                        }
                        text.push_str(&format!("{} {}", c, if c == 1 { s } else { p }));
                        total += dur::amount(c, *u);
                    }
                    Some(case(text, total, "en", "long-list"))
                },
            ));
        }
        // + and - ----------------------------------------------------------------------
        f.push(Family::new(
            "add-sub",
            Mode::Full,
            "D1 + D2 and D1 - D2 for D1, D2 over single parts of all 7 units x N in [1, 2, 59, 60] and two-part lists: sum/difference in whole seconds",
            move |ch| {
                let operand = |ch: &mut crate::explore::Chooser| -> (String, i64) {
                    let two = ch.flag();
                    let u = *ch.pick(&UNITS);
                    let c = *ch.pick(&[1i64, 2, 59, 60]);
                    let (s, p) = u.words("en");
                    let mut t = format!("{} {}", c, if c == 1 { s } else { p });
                    let mut v = dur::amount(c, u);
                    if two {
                        let u2 = *ch.pick(&[Unit::Second, Unit::Hour, Unit::Month]);
                        t.push_str(&format!(" 3 {}", u2.words("en").1));
                        v += dur::amount(3, u2);
                    }
                    (t, v)
                };
                let (at, av) = operand(ch);
                let (bt, bv) = operand(ch);
                let plus = ch.flag();
                let (text, want) = if plus { (format!("{} + {}", at, bt), av + bv) } else { (format!("{} - {}", at, bt), av - bv) };
                Some(case(text, want, "en", "add-sub"))
            },
        ));
        f.push(Family::new(
            "add-sub-chains",
            Mode::Full,
            "chains of 3..=5 durations joined by every pattern of + and - ('5 hours + 1 hour - 2 hours + 30 minutes'), parts from [5 hours, 1 hour, 2 hours, 30 minutes, 1 day, 45 seconds], in every language (the language's own words): evaluated from left to right",
            move |ch| {
                let l = ch.pick(&crate::spec::spec().languages).clone();
                let n = 3 + ch.choose(3);
                let parts: [(i64, Unit); 6] = [(5, Unit::Hour), (1, Unit::Hour), (2, Unit::Hour), (30, Unit::Minute), (1, Unit::Day), (45, Unit::Second)];
                let mut text = String::new();
                let mut total = 0i64;
                for i in 0..n {
                    let (c, u) = parts[(i * 5 + ch.choose(2) * 3) % parts.len()];
                    let (sg, pl) = u.words(&l);
                    let t = format!("{} {}", c, if c == 1 { sg } else { pl });
                    if i == 0 {
                        // start high enough that the chain stays positive
                        text.push_str(&format!("3 {} ", Unit::Day.words(&l).1));
                        total += 3 * 86400;
                        text.push_str("+ ");
                        text.push_str(&t);
                        total += dur::amount(c, u);
                    } else if ch.flag() {
                        text.push_str(&format!(" + {}", t));
                        total += dur::amount(c, u);
                    } else {
                        text.push_str(&format!(" - {}", t));
                        total -= dur::amount(c, u);
                    }
                }
                Some(case(text, total, &l, "add-sub-chain"))
            },
        ));
        f.push(Family::new(
            "parenthesised-sums",
            Mode::Full,
            "'A op1 (B op2 C)' and '(A op1 B) op2 C' for op1, op2 in [+, -] over durations A in [3 hours, 2 weeks, 1 day], B in [1 hour, 3 days, 90 minutes], C in [30 minutes, 12 hours, 45 seconds], in every language: parentheses group (A - (B + C) is A - B - C, A - (B - C) is A - B + C)",
            move |ch| {
                let l = ch.pick(&crate::spec::spec().languages).clone();
                let w = |c: i64, u: Unit, l: &str| {
                    let (sg, pl) = u.words(l);
                    (format!("{} {}", c, if c == 1 { sg } else { pl }), dur::amount(c, u))
                };
                let (at, av) = { let (c, u) = *ch.pick(&[(3i64, Unit::Hour), (2, Unit::Week), (1, Unit::Day)]); w(c, u, &l) };
                let (bt, bv) = { let (c, u) = *ch.pick(&[(1i64, Unit::Hour), (3, Unit::Day), (90, Unit::Minute)]); w(c, u, &l) };
                let (ct, cv) = { let (c, u) = *ch.pick(&[(30i64, Unit::Minute), (12, Unit::Hour), (45, Unit::Second)]); w(c, u, &l) };
                let op1 = *ch.pick(&['+', '-']);
                let op2 = *ch.pick(&['+', '-']);
                let f = |x: i64, op: char, y: i64| if op == '+' { x + y } else { x - y };
                let (text, want) = if ch.flag() {
                    (format!("{} {} ({} {} {})", at, op1, bt, op2, ct), f(av, op1, f(bv, op2, cv)))
                } else {
                    (format!("({} {} {}) {} {}", at, op1, bt, op2, ct), f(f(av, op1, bv), op2, cv))
                };
                if want <= 0 || f(bv, op2, cv) <= 0 || f(av, op1, bv) <= 0 {
                    return None; // negative intermediate or final durations are a topic of their own
                }
                Some(case(text, want, &l, "parenthesised"))
            },
        ));
        // as U ---------------------------------------------------------------------------
        {
            let conns: Vec<&'static str> = vec!["as", "in", "to", "into"];
            f.push(Family::new(
                "as-unit",
                Mode::Full,
                "'D as|in|to|into U' for D over one- and two-part durations (all units x N in [1, 2, 59, 60, 100, 10^4, 10^5, 10^6], i.e. magnitudes beyond 2^31 and 2^32 seconds) and U in seconds/minutes/hours/days/weeks (singular and plural word): D rounded down to whole U",
                move |ch| {
                    let u = *ch.pick(&UNITS);
                    let c = *ch.pick(&[1i64, 2, 59, 60, 100, 10_000, 100_000, 1_000_000]);
                    let two = ch.flag();
                    let (s, p) = u.words("en");
                    let mut t = format!("{} {}", c, if c == 1 { s } else { p });
                    let mut v = dur::amount(c, u);
                    if two {
                        let u2 = *ch.pick(&[Unit::Second, Unit::Minute, Unit::Day]);
                        t.push_str(&format!(" 7 {}", u2.words("en").1));
                        v += dur::amount(7, u2);
                    }
                    let target = *ch.pick(&[Unit::Second, Unit::Minute, Unit::Hour, Unit::Day, Unit::Week]);
                    let plural = ch.flag();
                    let conn = *ch.pick(&conns);
                    let w = if plural { target.words("en").1 } else { target.words("en").0 };
                    let want = (v / target.len()) * target.len();
                    Some(case(format!("{} {} {}", t, conn, w), want, "en", "as"))
                },
            ));
        }
        f
    }

    fn exec(&self, ctx: &mut Ctx, case: &LineCase) -> Verdict {
        exec_line(ctx, case)
    }

    fn rule(&self) -> String {
        "cases are all combinations of counts, unit spellings, list shapes, operators and target units in the stated sets; non-trivial = the model predicted the exact number of seconds and the exact printed decomposition (hand-written unit lengths and words) and both were compared; distinct = distinct input text".into()
    }
    fn assumptions(&self) -> Vec<String> {
        vec!["unit spellings are taken from config.json (constant_pair), unit lengths and output words are hand-written from the statement".into()]
    }
}
