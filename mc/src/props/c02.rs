//! C02 — arithmetic obeys precedence, associativity and parentheses for every expression.

use crate::explore::{Chooser, Family, Mode, Verdict};
use crate::lit::Conv;
use crate::model::arith::{self, Expr, Sign, Style, STYLES};
use crate::obs::{self, Run, Slot, Val};
use crate::runner::{Cfg, Ctx, Prop, Tier};
use serde::{Deserialize, Serialize};

pub struct C02;

#[derive(Clone, Debug, Serialize, Deserialize)]
pub struct Case {
    pub expr: Expr,
    pub style: Style,
    /// Some(name): rendered as "name = <expr>"
    pub assign: Option<String>,
    /// a line given as text with its value (generated shapes that are not expression trees of the renderer)
    #[serde(default, skip_serializing_if = "Option::is_none")]
    pub raw: Option<(String, f64)>,
}

const LITS4: [&str; 4] = ["7", "2", "0.5", "-3"];
const LITS7: [&str; 7] = ["7", "2", "0.5", "-3", "0", "10", "1000.25"];
const OPS: [char; 4] = ['+', '-', '*', '/'];

fn lit(ch: &mut Chooser, lits: &[&str]) -> Expr {
    Expr::Lit(ch.pick(lits).to_string(), None)
}

/// every binary tree with `n` leaves (all Catalan shapes x operators x literals)
pub fn tree(ch: &mut Chooser, n: usize, lits: &[&str]) -> Expr {
    if n == 1 {
        return lit(ch, lits);
    }
    let left = 1 + ch.choose(n - 1);
    let op = *ch.pick(&OPS);
    let l = tree(ch, left, lits);
    let r = tree(ch, n - left, lits);
    Expr::Bin(op, Box::new(l), Box::new(r))
}

/// tree with optional sign prefixes on every node (alternative 0 = no sign)
fn signed_tree(ch: &mut Chooser, n: usize, lits: &[&str], top: bool) -> Expr {
    let sign = ch.choose_dev(4);
    let inner = if n == 1 {
        lit(ch, lits)
    } else {
        let left = 1 + ch.choose(n - 1);
        let op = *ch.pick(&OPS);
        let l = signed_tree(ch, left, lits, false);
        let r = signed_tree(ch, n - left, lits, false);
        Expr::Bin(op, Box::new(l), Box::new(r))
    };
    let _ = top;
    let already_signed = matches!(&inner, Expr::Lit(s, _) if s.starts_with('-'));
    let first = match sign {
        0 => inner,
        1 => {
            if already_signed {
                // "--3" is not a sign prefix on an operand but two operators: use the detached form
                Expr::Sign(Sign::NegDetached, Box::new(inner))
            } else {
                Expr::Sign(Sign::NegAttached, Box::new(inner))
            }
        }
        2 => Expr::Sign(Sign::NegDetached, Box::new(inner)),
        _ => Expr::Sign(Sign::PosDetached, Box::new(inner)),
    };
    first
}

impl Prop for C02 {
    type Case = Case;
    fn id(&self) -> &'static str {
        "C02"
    }

    fn families(&self, tier: Tier) -> Vec<Family<Case>> {
        let mut f = Vec::new();
        let n_small = tier.pick(3, 4);
        f.push(Family::new(
            "trees",
            Mode::Full,
            &format!("all binary trees with 1..={} leaves x 4 operators x literals {:?} x 6 renderings", n_small, LITS4),
            move |ch| {
                let n = 1 + ch.choose(n_small);
                let style = *ch.pick(&STYLES);
                let e = tree(ch, n, &LITS4);
                Some(Case { expr: e, style, assign: None, raw: None })
            },
        ));
        let n_big = tier.pick(4, 5);
        let big_styles: Vec<Style> = tier.pick(vec![Style::Minimal, Style::Tight, Style::Triple], vec![Style::Minimal, Style::Tight]);
        f.push(Family::new(
            "trees-deep",
            Mode::Full,
            &format!("all binary trees with exactly {} leaves x 4 operators x literals [7, -3] x renderings {:?}", n_big, big_styles),
            move |ch| {
                let style = *ch.pick(&big_styles);
                let e = tree(ch, n_big, &["7", "-3"]);
                Some(Case { expr: e, style, assign: None, raw: None })
            },
        ));
        let styles7: Vec<Style> = tier.pick(vec![Style::Minimal], vec![Style::Minimal, Style::Tight]);
        f.push(Family::new(
            "trees-7lits",
            Mode::Full,
            &format!("all binary trees with 1..=3 leaves x 4 operators x literals {:?} x renderings {:?}", LITS7, styles7),
            move |ch| {
                let n = 1 + ch.choose(3);
                let style = *ch.pick(&styles7);
                let e = tree(ch, n, &LITS7);
                Some(Case { expr: e, style, assign: None, raw: None })
            },
        ));
        f.push(Family::new(
            "signs",
            Mode::Full,
            "trees with 1..=2 leaves, every node optionally prefixed by attached '-', detached '-' or '+', literals [7, 2, -3], renderings Minimal/Full/Tight",
            move |ch| {
                let n = 1 + ch.choose(2);
                let style = *ch.pick(&[Style::Minimal, Style::Full, Style::Tight]);
                let e = signed_tree(ch, n, &["7", "2", "-3"], true);
                Some(Case { expr: e, style, assign: None, raw: None })
            },
        ));
        let k = tier.pick(1, 2);
        let sstyles: Vec<Style> = tier.pick(vec![Style::Minimal], vec![Style::Minimal, Style::Full, Style::Tight]);
        f.push(Family::new(
            "signs-3",
            Mode::Deviations(k),
            &format!("all trees with 3 leaves (shapes x operators x literals [7, 2, -3]) with at most {} of the 5 nodes carrying a sign prefix, renderings {:?}", k, sstyles),
            move |ch| {
                let style = *ch.pick(&sstyles);
                let e = signed_tree(ch, 3, &["7", "2", "-3"], true);
                Some(Case { expr: e, style, assign: None, raw: None })
            },
        ));
        f.push(Family::new(
            "sign-chains",
            Mode::Full,
            "every chain of 1..=4 detached sign prefixes (+ or -) in front of an operand (7, -3, a parenthesised sum), at the start of the line, after each binary operator, inside parentheses and as an assignment's right-hand side",
            move |ch| {
                let n = 1 + ch.choose(4);
                let mut e = match ch.choose(3) {
                    0 => Expr::Lit("7".into(), None),
                    1 => Expr::Lit("-3".into(), None),
                    _ => Expr::Bin('+', Box::new(Expr::Lit("7".into(), None)), Box::new(Expr::Lit("2".into(), None))),
                };
                for _ in 0..n {
                    e = Expr::Sign(if ch.flag() { Sign::NegDetached } else { Sign::PosDetached }, Box::new(e));
                }
                let ctx = ch.choose(7);
                let two = || Box::new(Expr::Lit("2".into(), None));
                let (e, assign) = match ctx {
                    0 => (e, None),
                    1 => (Expr::Bin('*', two(), Box::new(e)), None),
                    2 => (Expr::Bin('-', two(), Box::new(e)), None),
                    3 => (Expr::Bin('/', two(), Box::new(e)), None),
                    4 => (Expr::Bin('+', two(), Box::new(e)), None),
                    5 => (Expr::Bin('*', Box::new(Expr::Bin('+', Box::new(e), two())), two()), None),
                    _ => (Expr::Bin('*', two(), Box::new(e)), Some("x".to_string())),
                };
                Some(Case { expr: e, style: Style::Minimal, assign, raw: None })
            },
        ));
        let na = tier.pick(3, 4);
        f.push(Family::new(
            "assign",
            Mode::Full,
            &format!("'x = <expr>' for trees with 1..={} leaves, 6 renderings, literals [7, 2, -3]", na),
            move |ch| {
                let n = 1 + ch.choose(na);
                let style = *ch.pick(&STYLES);
                let signed = ch.flag();
                let e = if signed { signed_tree(ch, n.min(2), &["7", "2", "-3"], true) } else { tree(ch, n, &["7", "2", "-3"]) };
                Some(Case { expr: e, style, assign: Some("x".into()), raw: None })
            },
        ));
        let nj = tier.pick(3, 5);
        f.push(Family::new(
            "juxtapose",
            Mode::Full,
            &format!("lists of 2..={} operands side by side; each operand a literal of [7, 2, 0.5, -3, +4] or a product/parenthesised sum; gaps ' ', ' + ', ' - '", nj),
            move |ch| {
                let n = 2 + ch.choose(nj - 1);
                let style = *ch.pick(&[Style::Minimal, Style::Wide]);
                let operand = |ch: &mut Chooser| -> Expr {
                    match ch.choose(7) {
                        0 => Expr::Lit("7".into(), None),
                        1 => Expr::Lit("2".into(), None),
                        2 => Expr::Lit("0.5".into(), None),
                        3 => Expr::Lit("-3".into(), None),
                        4 => Expr::Lit("+4".into(), None),
                        5 => Expr::Bin('*', Box::new(Expr::Lit("2".into(), None)), Box::new(Expr::Lit("10".into(), None))),
                        _ => Expr::Bin('+', Box::new(Expr::Lit("7".into(), None)), Box::new(Expr::Lit("2".into(), None))),
                    }
                };
                let mut acc = operand(ch);
                for _ in 1..n {
                    let gap = *ch.pick(&[' ', '+', '-']);
                    let o = operand(ch);
                    acc = Expr::Bin(gap, Box::new(acc), Box::new(o));
                }
                Some(Case { expr: acc, style, assign: None, raw: None })
            },
        ));
        f.push(Family::new(
            "many-parentheses",
            Mode::Full,
            "parentheses nested to depth d around '1 + 1' and around '2 * (3 + 4)' for every d in 1..=48 and 64, 100, 200 (value 2 / 14), flat sums '(1) + (2) + ... + (k)' and products of k groups for every k in 1..=48 and 64, 100 (value k(k+1)/2), and k side-by-side groups '(1)(1)...(1)' (value k): the number of groups and the nesting depth do not matter",
            move |ch| {
                let ns: Vec<usize> = (1..=48).chain([64, 100, 200].into_iter()).collect();
                let n = *ch.pick(&ns);
                let (text, want): (String, f64) = match ch.choose(5) {
                    0 => (format!("{}1 + 1{}", "(".repeat(n), ")".repeat(n)), 2.0),
                    1 => (format!("{}2 * (3 + 4){}", "(".repeat(n), ")".repeat(n)), 14.0),
                    2 => ((1..=n).map(|i| format!("({})", i)).collect::<Vec<_>>().join(" + "), (n * (n + 1) / 2) as f64),
                    3 => ((1..=n).map(|_| "(1 + 1)".to_string()).collect::<Vec<_>>().join(" * "), if n <= 100 { 2f64.powi(n as i32) } else { return None }),
                    _ => ((1..=n).map(|_| "(1)".to_string()).collect::<Vec<_>>().join(""), n as f64),
                };
                Some(Case { expr: Expr::Lit("0".into(), None), style: Style::Minimal, assign: None, raw: Some((text, want)) })
            },
        ));
        f.push(Family::new(
            "quotient-chains",
            Mode::Full,
            "'a / b / c' for a, b, c over [1, 4, 9, 10, 12, 13, 20, 28, 30, 31, 32, 40, 2021] in 3 spacings, alone, as 'x = ...' and as '3 + a/b/c': left-associative division unless the three operands read as a valid day/month/year (those are dates by design and are left out by the calendar rule, not by what the calculator answers)",
            move |ch| {
                let ns = [1i64, 4, 9, 10, 12, 13, 20, 28, 30, 31, 32, 40, 2021];
                let (a, b, c) = (*ch.pick(&ns), *ch.pick(&ns), *ch.pick(&ns));
                let chain = match ch.choose(3) {
                    0 => format!("{} / {} / {}", a, b, c),
                    1 => format!("{}/{}/{}", a, b, c),
                    _ => format!("{} /{} / {}", a, b, c),
                };
                let q = a as f64 / b as f64 / c as f64;
                let (text, want) = match ch.choose(3) {
                    0 => (chain, q),
                    1 => (format!("x = {}", chain), q),
                    _ => (format!("3 + {}", chain), 3.0 + q),
                };
                Some(Case { expr: Expr::Lit("0".into(), None), style: Style::Minimal, assign: None, raw: Some((text, want)) })
            },
        ));
        f.push(Family::new(
            "suffix-any-language-tag",
            Mode::Full,
            "each magnitude suffix k K M G T P Z Y on literals [2, 1,5] alone, in a sum and as 'x = 5<s> / 2' under the language tags tr, xx (not configured) and en-US (not configured): the suffix scales the literal whatever the tag is",
            move |ch| {
                let suf = *ch.pick(&['k', 'K', 'M', 'G', 'T', 'P', 'Z', 'Y']);
                let f10 = arith::suffix_factor(suf);
                let lang = *ch.pick(&["tr", "xx", "en-US"]);
                let (text, want) = match ch.choose(4) {
                    0 => (format!("2{}", suf), 2.0 * f10),
                    1 => (format!("2{} + 1", suf), 2.0 * f10 + 1.0),
                    2 => (format!("1,5{} * 2", suf), 1.5 * f10 * 2.0),
                    _ => (format!("x = 5{} / 2", suf), 5.0 * f10 / 2.0),
                };
                Some(Case { expr: Expr::Lit(lang.into(), None), style: Style::Minimal, assign: Some("@lang".into()), raw: Some((text, want)) })
            },
        ));
        f.push(Family::new(
            "magnitudes",
            Mode::Full,
            "all binary trees with 2..=3 leaves x 4 operators over literals of extreme magnitude [0.0000000000000001, 0.000001, 0.1, 0.2, 0.3, 1, 3, 123456789012, 0] and 5Y / 4Z: tiny but non-zero divisors (also as rounding residues such as 0,3 - 0,1 - 0,2), huge quotients, exact zeros",
            move |ch| {
                let lits: [(&str, Option<char>); 11] = [("0.0000000000000001", None), ("0.000001", None), ("0.1", None), ("0.2", None), ("0.3", None), ("1", None), ("3", None), ("123456789012", None), ("0", None), ("5", Some('Y')), ("4", Some('Z'))];
                fn t(ch: &mut Chooser, n: usize, lits: &[(&str, Option<char>)]) -> Expr {
                    if n == 1 {
                        let (l, s) = *ch.pick(lits);
                        return Expr::Lit(l.to_string(), s);
                    }
                    let left = 1 + ch.choose(n - 1);
                    let op = *ch.pick(&OPS);
                    let l = t(ch, left, lits);
                    let r = t(ch, n - left, lits);
                    Expr::Bin(op, Box::new(l), Box::new(r))
                }
                let n = 2 + ch.choose(2);
                Some(Case { expr: t(ch, n, &lits), style: Style::Minimal, assign: None, raw: None })
            },
        ));
        f.push(Family::new(
            "suffix",
            Mode::Full,
            "each magnitude suffix k K M G T P Z Y on literals [1, 2.5, -3] alone, as left and right operand of each operator, and inside parentheses",
            move |ch| {
                let suf = *ch.pick(&['k', 'K', 'M', 'G', 'T', 'P', 'Z', 'Y']);
                let l = Expr::Lit(ch.pick(&["1", "2.5", "-3"]).to_string(), Some(suf));
                let shape = ch.choose(4);
                let style = *ch.pick(&[Style::Minimal, Style::Tight, Style::Full]);
                let e = match shape {
                    0 => l,
                    1 => Expr::Bin(*ch.pick(&OPS), Box::new(l), Box::new(Expr::Lit("2".into(), None))),
                    2 => Expr::Bin(*ch.pick(&OPS), Box::new(Expr::Lit("2".into(), None)), Box::new(l)),
                    _ => Expr::Bin('*', Box::new(Expr::Bin('+', Box::new(l), Box::new(Expr::Lit("1".into(), None)))), Box::new(Expr::Lit("2".into(), None))),
                };
                Some(Case { expr: e, style, assign: None, raw: None })
            },
        ));
        f
    }

    fn exec(&self, ctx: &mut Ctx, case: &Case) -> Verdict {
        let conv = Conv::default_lib();
        let mut lang = "en".to_string();
        let (text, want, excluded) = match &case.raw {
            Some((t, w)) => {
                if case.assign.as_deref() == Some("@lang") {
                    if let Expr::Lit(l, _) = &case.expr {
                        lang = l.clone();
                    }
                }
                (t.clone(), *w, arith::text_has_date_triple(t))
            }
            None => {
                let toks = arith::tokens(&case.expr, case.style, &conv);
                let mut text = arith::join(&toks, case.style);
                if let Some(name) = &case.assign {
                    text = match case.style {
                        Style::Tight => format!("{}={}", name, text),
                        _ => format!("{} = {}", name, text),
                    };
                }
                let ex = arith::has_date_triple(&toks) || arith::text_has_date_triple(&text);
                (text.clone(), arith::eval(&case.expr), ex)
            }
        };
        if excluded {
            return Verdict::pass(text, "excluded-date-triple", false, String::new(), 0);
        }
        let line = text.clone();
        let run = obs::eval(ctx.calc(&Cfg::default()), &lang, &line);
        let text = if lang == "en" { text } else { format!("[{}] {}", lang, text) };
        let observed = run.brief();
        let mut v = Verdict { input: text, class: "value-compared", compared: true, expected: format!("Number({:?})", want), observed, evals: 1, ..Default::default() };
        match &run {
            Run::Panic(p) => {
                v.violation = Some(format!("panic: {}", p.message));
                v.site = Some(p.site.clone());
            }
            Run::Done(_) => match run.single() {
                Some(Slot::Ok { val: Val::Number(x, _), .. }) => {
                    if !obs::close(*x, want, 1e-12) {
                        v.violation = Some("wrong value".into());
                    } else {
                        // the same expression followed by a comment with multi-byte characters, and as
                        // the second line of a text
                        for (what, t) in [("followed by a multi-byte comment", format!("{} # yıl İ ŉ 日本", line)), ("as the second line of a text", format!("7\n{}", line))] {
                            let r = obs::eval(ctx.calc(&Cfg::default()), &lang, &t);
                            v.evals += 1;
                            let ok = matches!(r.last(), Some(Slot::Ok { val: Val::Number(y, _), .. }) if obs::close(*y, want, 1e-12));
                            if !ok {
                                v.violation = Some(format!("wrong value [context: {}]", what));
                                v.observed = r.brief();
                                v.input = t.replace('\n', " \\n ");
                                break;
                            }
                        }
                    }
                }
                Some(Slot::Ok { .. }) => v.violation = Some("wrong kind: result is not a number".into()),
                Some(Slot::Err(e)) => v.violation = Some(format!("error instead of a value: {}", e)),
                Some(Slot::Empty) => v.violation = Some("empty slot instead of a value".into()),
                None => v.violation = Some("not exactly one result slot".into()),
            },
        }
        v
    }

    fn rule(&self) -> String {
        "cases are all choice vectors of the expression generators (tree shape, operators, literals, sign prefixes, rendering style); a case is non-trivial when the reference evaluator predicted a number that was compared with the implementation's value (date-like quotient chains are generated but excluded); distinct = distinct rendered line".into()
    }

    fn assumptions(&self) -> Vec<String> {
        vec!["reference evaluator performs the same IEEE-754 operations in tree order; comparison tolerance 1e-12 relative".into()]
    }
}
