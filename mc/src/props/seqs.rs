//! Shared generators for C01 (totality) and C17 (UI tokens): sequences of lexical atoms.

use crate::explore::{Chooser, Family, Mode};
use crate::runner::Tier;
use serde::{Deserialize, Serialize};

#[derive(Clone, Debug, Serialize, Deserialize)]
pub struct SeqCase {
    pub lang: String,
    pub text: String,
    #[serde(default)]
    pub now: Option<i64>,
}

/// One representative per branch of the tokenizer and the rules.
pub fn alphabet() -> Vec<String> {
    let mut a: Vec<String> = Vec::new();
    let mut add = |xs: &[&str]| {
        for x in xs {
            a.push(x.to_string());
        }
    };
    // digits and decimal literals
    add(&["0", "7", "12", "24", "25", "31", "2020", "99999999999999999999", "-3", "+4", "1,5", "1.000", "1k", "2M", "1,51,510"]);
    // radix literals incl. over-long ones
    add(&["0x1F", "0b101", "0o17", "0xFFFFFFFFFFFFFFFFFF", "0b1111111111111111111111111111111111111111111111111111111111111111111111", "0o7777777777777777777777777"]);
    // operator-class characters
    add(&["+", "-", "*", "/", "(", ")", "=", "%", "^", ":", ",", ".", "#", ";", "!", "?", "'", "&", "_", "−", "\t", "\u{a0}", "[", "]", "{", "}"]);
    // currency symbols and codes
    add(&["$", "€", "₺", "£", "usd", "try", "eur", "aed", "dollar", "лв"]);
    // connectives and type keywords of the rule patterns
    add(&["to", "in", "as", "into", "of", "on", "off", "is", "what", "at", "date", "unix", "hex", "octal", "binary", "decimal", "times", "minus", "arası"]);
    // duration / day / month words
    add(&["day", "days", "weeks", "months", "years", "seconds", "hour", "minutes", "today", "tomorrow", "yesterday", "now", "december", "dec", "feb", "gün", "yıl", "aralık", "bugün"]);
    // zone forms
    add(&["EST", "cet", "GMT+3", "GMT-3:30", "GMT+19", "TMT", "UTC"]);
    // clock forms
    add(&["11:30", "23:59:59", "0:00", "24:00", "12:30 pm", "11pm", "3:35 am"]);
    // clock forms one past the bound of a field (what a widened pattern would start to accept)
    add(&["23:59:60", "23:60", "25:00", "11:30:99", "13 pm", "0:0", "GMT+3:60"]);
    // percent spellings
    add(&["10%", "%10", "-5%", "1,51,510%"]);
    // atom syntax, valid and malformed
    add(&["[NUMBER:5]", "[NUMBER:abc]", "[TIME:3600]", "[TIME:99999]", "[TIME:-1]", "[MONEY:5;usd]", "[MONEY:5]", "[MONEY:x;usd]", "[PERCENT:z]", "[OPERATOR:+]", "[FOO:1]"]);
    // field syntax
    add(&["{NUMBER:n}", "{TEXT:t}", "{GROUP:g:conversion_group}", "{GROUP:g:nosuch}", "{FOO:x}", "{DYNAMIC_TYPE:x:memory}", "{DATE:d}", "{NUMBER_OR_MONEY:m}"]);
    // units
    add(&["km", "kg", "byte", "mb", "inch", "st"]);
    // multi-byte and case-length-changing characters
    add(&["İ", "ß", "ı", "ş", "é", "日本", "😀", "e\u{301}", "\u{200f}", "ǅ", "ﬃ"]);
    // variables / text
    add(&["x", "foo"]);
    a
}

/// the core used for longer sequences
pub fn core() -> Vec<String> {
    ["7", "12", "2020", "-3", "1,5", "+", "-", "*", "/", "(", ")", "=", "%", "#", ",", "usd", "$", "to", "of", "at", "days", "months", "today", "december", "EST", "11:30", "10%", "[NUMBER:5]", "{NUMBER:n}", "km", "ş", "😀", "x", "0x1F", "as", "unix"].iter().map(|s| s.to_string()).collect()
}

pub fn nucleus() -> Vec<String> {
    ["7", "-3", "+", "-", "*", "/", "(", ")", "=", "%", "days", "12", "december", "usd", "to", "x"].iter().map(|s| s.to_string()).collect()
}

fn seq(ch: &mut Chooser, atoms: &[String], len: usize, joiners: &[&str]) -> String {
    let j = *ch.pick(joiners);
    let mut parts: Vec<&str> = Vec::new();
    for _ in 0..len {
        parts.push(ch.pick(atoms).as_str());
    }
    parts.join(j)
}

pub fn families(tier: Tier) -> Vec<Family<SeqCase>> {
    let mut f = Vec::new();
    let sigma = alphabet();
    let n = sigma.len();
    {
        let sigma = sigma.clone();
        f.push(Family::new(
            "atoms-1-2",
            Mode::Full,
            &format!("every sequence of 1..=2 atoms over the full alphabet ({} atoms: one representative per tokenizer/rule branch incl. malformed atoms, over-long radix literals, multi-byte characters), joined by ' ' or '', language en", n),
            move |ch| {
                let len = 1 + ch.choose(2);
                let text = seq(ch, &sigma, len, &[" ", ""]);
                Some(SeqCase { lang: "en".into(), text, now: None })
            },
        ));
    }
    {
        let sigma = sigma.clone();
        let langs: Vec<&'static str> = vec!["tr", "xx", ""];
        f.push(Family::new(
            "atoms-langs",
            Mode::Full,
            &format!("every sequence of 1..=2 atoms over the full alphabet joined by ' ', languages tr, xx (unknown) and the empty tag{}", if tier == Tier::Quick { " (pairs restricted to a 48-atom left operand set)" } else { "" }),
            move |ch| {
                let lang = *ch.pick(&langs);
                let len = 1 + ch.choose(2);
                let text = if len == 1 {
                    ch.pick(&sigma).clone()
                } else {
                    let left_pool: Vec<String> = if tier == Tier::Quick { sigma.iter().step_by(3).cloned().collect() } else { sigma.clone() };
                    format!("{} {}", ch.pick(&left_pool), ch.pick(&sigma))
                };
                Some(SeqCase { lang: lang.into(), text, now: None })
            },
        ));
    }
    {
        let core = core();
        let nc = core.len();
        f.push(Family::new(
            "core-3",
            Mode::Full,
            &format!("every sequence of 3 atoms over the {}-atom core, joined by ' ', language en", nc),
            move |ch| {
                let text = seq(ch, &core, 3, &[" "]);
                Some(SeqCase { lang: "en".into(), text, now: None })
            },
        ));
    }
    if tier == Tier::Thorough {
        let sigma = sigma.clone();
        let core = core();
        f.push(Family::new(
            "sigma-core-core",
            Mode::Full,
            "every sequence (full alphabet atom, core atom, core atom) and (core, core, full), joined by ' ', language en",
            move |ch| {
                let first = ch.flag();
                let text = if first { format!("{} {} {}", ch.pick(&sigma), ch.pick(&core), ch.pick(&core)) } else { format!("{} {} {}", ch.pick(&core), ch.pick(&core), ch.pick(&sigma)) };
                Some(SeqCase { lang: "en".into(), text, now: None })
            },
        ));
    }
    {
        let nuc = nucleus();
        let len = tier.pick(4, 5);
        f.push(Family::new(
            "nucleus-long",
            Mode::Full,
            &format!("every sequence of {} atoms over a 16-atom nucleus (numbers, operators, parentheses, '=', a duration word, a month, a currency, a connective, a name), joined by ' ', language en", len),
            move |ch| {
                let text = seq(ch, &nuc, len, &[" "]);
                Some(SeqCase { lang: "en".into(), text, now: None })
            },
        ));
    }
    {
        // date-sensitive atoms under several clocks
        let clocks: Vec<i64> = vec![1_709_208_000 /* 2024-02-29 12:00 */, 1_767_225_599 /* 2025-12-31 23:59:59 */, 1_767_225_600 /* 2026-01-01 00:00 */, 1_743_379_200 /* 2025-03-31 00:00 */];
        let words: Vec<String> = ["today", "tomorrow", "yesterday", "now", "11:30", "12 december", "29 feb", "31/12/2024", "[TIME:3600]"].iter().map(|s| s.to_string()).collect();
        let tails: Vec<String> = ["", "+ 1 day", "- 1 month", "+ 11 months", "+ 1 year", "to 1/1/2025", "as unix", "at 11:30", "to EST", "+ 13 hours"].iter().map(|s| s.to_string()).collect();
        f.push(Family::new(
            "clock-words",
            Mode::Full,
            "date and time words (today, tomorrow, yesterday, now, 11:30, 12 december, 29 feb, 31/12/2024, [TIME:3600]) x 10 continuations under 4 clock instants (leap day, last second of a year, first second of a year, end of a 31-day month)",
            move |ch| {
                let now = *ch.pick(&clocks);
                let w = ch.pick(&words).clone();
                let t = ch.pick(&tails).clone();
                Some(SeqCase { lang: "en".into(), text: format!("{} {}", w, t).trim().to_string(), now: Some(now) })
            },
        ));
    }
    f
}
