//! C07 — numbers print correctly rounded, grouped and signed in every format setting.

use super::common::{run_case, Expect, LineCase};
use crate::explore::{Family, Mode, Verdict};
use crate::model::decimal::{half_unit_cmp, Dec};
use crate::obs::{Run, Slot};
use crate::runner::{Cfg, Ctx, Prop, Tier};
use crate::spec::spec;
use serde::{Deserialize, Serialize};
use std::cmp::Ordering;

pub struct C07;

#[derive(Clone, Debug, Serialize, Deserialize)]
pub enum Kind {
    Number,
    Percent,
    /// lower-case currency code
    Money(String),
    /// unit word and the format prefix/suffix around {value}
    Unit(String, String, String),
    /// item 'qq' of a user-defined unit family that carries its own digits and flags
    UserUnit,
    /// [NUMBER:x] printed by a calculator whose separators were reached through this sequence of
    /// single setter calls ('d' + value = set_decimal_seperator, 't' + value = set_thousand_separator)
    SetterOrder(Vec<String>),
}

#[derive(Clone, Debug, Serialize, Deserialize)]
pub struct Case {
    pub kind: Kind,
    pub x: f64,
    pub digits: u8,
    pub remove_zero_fract: bool,
    pub rounding: bool,
    pub dec: String,
    pub thou: String,
    /// every OTHER kind's configuration is set to the opposite of this one (other digit count,
    /// both flags flipped): a kind is rendered with its own configuration only
    #[serde(default, skip_serializing_if = "std::ops::Not::not")]
    pub cross: bool,
}

/// the value grid of a digit count, built once per (digits, tier) and shared (the generator runs
/// on one thread: rebuilding a 40 000-element grid for every case made it the bottleneck)
fn grid(d: u8, tier: Tier) -> std::sync::Arc<Vec<f64>> {
    use std::collections::HashMap;
    use std::sync::{Arc, Mutex, OnceLock};
    static CACHE: OnceLock<Mutex<HashMap<(u8, bool), Arc<Vec<f64>>>>> = OnceLock::new();
    let mut g = CACHE.get_or_init(Default::default).lock().unwrap();
    g.entry((d, tier == Tier::Thorough)).or_insert_with(|| Arc::new(build_grid(d, tier))).clone()
}

fn build_grid(d: u8, tier: Tier) -> Vec<f64> {
    let mut v: Vec<f64> = Vec::new();
    let unit = 10f64.powi(-(d as i32));
    let half = unit / 2.0;
    // around every carry point: k + 1 - half (e.g. 0.995, 9.995 ... for d = 2), and k + half
    for k in [0.0, 9.0, 99.0, 999.0, 9999.0, 999999.0, 1.0, 2.0, 10.0, 12.0, 100.0, 1000.0, 1234.0] {
        for base in [k + 1.0 - half, k + half, k + unit, k + 1.0 - unit, k + 0.5, k] {
            v.push(base);
            v.push(base.next_up());
            v.push(base.next_down());
        }
    }
    // below one unit of the last digit
    for q in [0.1, 0.4, 0.49, 0.5, 0.51, 0.9] {
        v.push(unit * q);
    }
    v.extend([0.0, -0.0, 1e-7, 0.1, 0.25, 0.3, 1.0 / 3.0, 2.0 / 3.0, 10.1, 0.05, 0.15, 0.045, 1.005, 2.675]);
    // integers of 1..16 digits: grouping at every length
    let mut n: f64 = 0.0;
    for i in 1..=16 {
        n = n * 10.0 + (i % 10) as f64;
        v.push(n);
        v.push(n + 0.5);
    }
    v.extend([9007199254740992.0, 1e15, 1e17, 1e21, 123456789.125, 987654321.987654]);
    if tier == Tier::Thorough && d <= 3 {
        for i in 0..=20_000 {
            v.push(i as f64 / 1000.0);
        }
    }
    let mut out: Vec<f64> = Vec::new();
    for x in v {
        if x.is_finite() {
            out.push(x);
            if x != 0.0 {
                out.push(-x);
            }
        }
    }
    out
}

/// Parse a printed number: returns (negative, integer digits, fraction digits) if the shape is
/// well-formed: optional '-', first group of 1..3 digits, then groups of exactly 3 separated by
/// the thousands separator, then nothing or the decimal separator followed by >= 1 digits.
fn parse_printed(s: &str, dec: &str, thou: &str) -> Result<(bool, String, Option<String>), String> {
    let (neg, rest) = match s.strip_prefix('-') {
        Some(r) => (true, r),
        None => (false, s),
    };
    let (int_part, frac) = if dec.is_empty() {
        (rest, None)
    } else {
        match rest.rfind(dec) {
            Some(i) => (&rest[..i], Some(&rest[i + dec.len()..])),
            None => (rest, None),
        }
    };
    // when both separators are the same character the split above is ambiguous; callers avoid it
    let mut int_digits = String::new();
    if thou.is_empty() {
        if int_part.is_empty() || !int_part.bytes().all(|b| b.is_ascii_digit()) {
            return Err(format!("integer part {:?} is not a digit string", int_part));
        }
        int_digits.push_str(int_part);
    } else {
        let groups: Vec<&str> = int_part.split(thou).collect();
        for (i, g) in groups.iter().enumerate() {
            if g.is_empty() || !g.bytes().all(|b| b.is_ascii_digit()) {
                return Err(format!("group {:?} of integer part {:?} is not a digit string", g, int_part));
            }
            if i == 0 {
                if g.len() > 3 && groups.len() > 1 {
                    return Err(format!("first group {:?} longer than 3", g));
                }
                if g.len() > 3 {
                    return Err(format!("integer part {:?} is not grouped", int_part));
                }
            } else if g.len() != 3 {
                return Err(format!("group {:?} is not 3 digits", g));
            }
            int_digits.push_str(g);
        }
    }
    if int_digits.len() > 1 && int_digits.starts_with('0') {
        return Err(format!("leading zero in {:?}", int_part));
    }
    let frac = match frac {
        None => None,
        Some(f) => {
            if f.is_empty() {
                return Err("trailing decimal separator".into());
            }
            if !f.bytes().all(|b| b.is_ascii_digit()) {
                return Err(format!("fraction {:?} is not a digit string", f));
            }
            Some(f.to_string())
        }
    };
    Ok((neg, int_digits, frac))
}

/// The acceptance predicate.  Err(what) = violation.
pub fn accept(out: &str, x: f64, d: u8, remove: bool, rounding: bool, dec: &str, thou: &str) -> Result<&'static str, String> {
    let (neg, int_digits, frac) = parse_printed(out, dec, thou)?;
    let v = Dec::parse(&int_digits, frac.as_deref().unwrap_or(""));
    let exact = Dec::of_f64(x);
    // value: within half a unit of the last configured digit (ties: both neighbours accepted).
    // With rounding disabled the library prints the shortest digit string that identifies the
    // double; that string is accepted when it reads back as exactly the value.
    if half_unit_cmp(&v, &exact, d as usize) == Ordering::Greater {
        let reads_back = !rounding && format!("{}.{}", int_digits, frac.as_deref().unwrap_or("0")).parse::<f64>().map(|p| p == x.abs()).unwrap_or(false);
        if !reads_back {
            return Err(format!("printed value is more than half a unit of digit {} away from the value", d));
        }
    }
    if rounding {
        match &frac {
            Some(f) => {
                if f.len() != d as usize {
                    return Err(format!("fraction has {} digits, configured {}", f.len(), d));
                }
                if remove && f.bytes().all(|b| b == b'0') {
                    return Err("zero fraction printed although removal is enabled".into());
                }
            }
            None => {
                if d > 0 && !remove {
                    return Err("fraction omitted although removal of zero fractions is disabled".into());
                }
                if d > 0 && remove {
                    // omitted: all d printed digits must be zero, i.e. the value rounded to d
                    // digits is an integer: the integer itself must be within half a unit
                    // (checked above) — nothing more to check
                }
            }
        }
    }
    // sign
    if x >= 0.0 && neg {
        return Err("minus sign on a non-negative value".into());
    }
    if x < 0.0 && !neg && !v.is_zero() {
        return Err("negative value printed without a minus sign".into());
    }
    Ok(if x < 0.0 && v.is_zero() { "accepted(sign-of-zero-unspecified)" } else { "accepted" })
}

fn fmt_x(x: f64) -> String {
    // shortest representation that parses back to exactly x
    let s = format!("{:?}", x);
    debug_assert!(s.parse::<f64>().unwrap().to_bits() == x.to_bits() || x == 0.0);
    s
}

impl Prop for C07 {
    type Case = Case;
    fn id(&self) -> &'static str {
        "C07"
    }

    fn families(&self, tier: Tier) -> Vec<Family<Case>> {
        let mut f = Vec::new();
        let digit_set: Vec<u8> = tier.pick(vec![0, 1, 2, 3, 6, 9], (0..=9).collect());
        let seps: Vec<(&'static str, &'static str)> = tier.pick(vec![(",", "."), (".", ",")], vec![(",", "."), (".", ","), (".", ""), (",", " ")]);
        f.push(Family::new(
            "cross-configuration",
            Mode::Full,
            "numbers, percentages, money (usd, jpy, kwd) and user-unit quantities with digits [0, 2, 4] x zero-fraction removal on/off x rounding on/off, while the configuration of every OTHER kind is set to the opposite (9 - digits, both flags flipped), x values [12.3456, 1999.996, 0.005, 9.999, -2.5, 1000]: each kind is rendered with its own configuration only",
            move |ch| {
                let kind = match ch.choose(6) {
                    0 => Kind::Number,
                    1 => Kind::Percent,
                    2 => Kind::Money("usd".into()),
                    3 => Kind::Money("jpy".into()),
                    4 => Kind::Money("kwd".into()),
                    _ => Kind::UserUnit,
                };
                let d = *ch.pick(&[0u8, 2, 4]);
                let remove = ch.flag();
                let rounding = !ch.flag();
                let x = *ch.pick(&[12.3456, 1999.996, 0.005, 9.999, -2.5, 1000.0]);
                let digits = match &kind {
                    Kind::Money(code) => {
                        if d != 2 {
                            return None; // money takes its digit count from the currency
                        }
                        spec().currencies[code.as_str()].digits as u8
                    }
                    _ => d,
                };
                Some(Case { kind, x, digits, remove_zero_fract: remove, rounding, dec: ",".into(), thou: ".".into(), cross: true })
            },
        ));
        for (name, is_pct) in [("number", false), ("percent", true)] {
            let (digit_set, seps) = (digit_set.clone(), seps.clone());
            f.push(Family::new(
                name,
                Mode::Full,
                &format!("values injected exactly through the atom syntax; digits {:?} x zero-fraction removal on/off x rounding on/off x separators {:?} x value grid per digit count (rounding boundaries +-1 ulp around every carry and grouping point, sub-unit values, integers of 1..16 digits, negatives)", digit_set, seps),
                move |ch| {
                    let d = *ch.pick(&digit_set);
                    let remove = ch.flag();
                    let rounding = !ch.flag();
                    let (dec, thou) = *ch.pick(&seps);
                    let g = grid(d, tier);
                    let x = *ch.pick(&g);
                    Some(Case { kind: if is_pct { Kind::Percent } else { Kind::Number }, x, digits: d, remove_zero_fract: remove, rounding, dec: dec.into(), thou: thou.into(), cross: false })
                },
            ));
        }
        {
            // currencies with 0, 2 (and 3 if rated) digits and all four symbol placements
            let sp = spec();
            let mut picks: Vec<String> = Vec::new();
            let mut seen = std::collections::BTreeSet::new();
            for code in sp.rated() {
                let c = &sp.currencies[&code];
                let key = (c.digits, c.symbol_on_left, c.space);
                // quick: one currency per (digits, side, blank) combination; thorough: all rated currencies
                if tier == Tier::Thorough || seen.insert(key) {
                    picks.push(code);
                }
            }
            let seps = seps.clone();
            f.push(Family::new(
                "money",
                Mode::Full,
                &format!("money literals 'x code' (exact: shortest round-trip digits) for currencies {:?} (every combination of digit count and symbol placement among the rated currencies) x money zero-fraction removal on/off x rounding on/off x separators x value grid of the currency's digit count", picks),
                move |ch| {
                    let code = ch.pick(&picks).clone();
                    let d = spec().currencies[&code].digits;
                    let remove = ch.flag();
                    let rounding = !ch.flag();
                    let (dec, thou) = *ch.pick(&seps);
                    let g = grid(d, tier);
                    let x = *ch.pick(&g);
                    Some(Case { kind: Kind::Money(code), x, digits: d, remove_zero_fract: remove, rounding, dec: dec.into(), thou: thou.into(), cross: false })
                },
            ));
        }
        {
            let sp = spec();
            let mut all: Vec<String> = sp.currencies.keys().cloned().collect();
            all.sort();
            let n = all.len();
            f.push(Family::new(
                "money-all-currencies",
                Mode::Full,
                &format!("every configured currency ({} records, with or without a rate) x amounts [0, 1, 1234.56, -2469.5, 0.005, 999.995]: digit count, symbol and symbol placement (side, blank) of the currency's own record", n),
                move |ch| {
                    let code = ch.pick(&all).clone();
                    let d = spec().currencies[&code].digits;
                    let x = *ch.pick(&[0.0, 1.0, 1234.56, -2469.5, 0.005, 999.995]);
                    Some(Case { kind: Kind::Money(code), x, digits: d, remove_zero_fract: false, rounding: true, dec: ",".into(), thou: ".".into(), cross: false })
                },
            ));
        }
        f.push(Family::new(
            "exotic-separators",
            Mode::Full,
            "separator pairs beyond '.' and ',': thousands separator plain space, NBSP (U+00A0), narrow NBSP (U+202F), thin space (U+2009), apostrophe, underscore; decimal separator ',', '.', middle dot, ';' - for numbers, percentages, money (usd, jpy) and unit quantities x values [1234567.891, -2469, 999.995, 0.5, 1000]: grouped and separated with exactly the configured strings",
            move |ch| {
                let (dec, thou) = *ch.pick(&[(",", " "), (",", "\u{a0}"), (",", "\u{202f}"), (",", "\u{2009}"), (".", "'"), (".", "_"), ("\u{b7}", " "), (";", ".")]);
                let x = *ch.pick(&[1234567.891, -2469.0, 999.995, 0.5, 1000.0]);
                let kind = match ch.choose(5) {
                    0 => Kind::Number,
                    1 => Kind::Percent,
                    2 => Kind::Money("usd".into()),
                    3 => Kind::Money("jpy".into()),
                    _ => Kind::Unit("km".into(), "".into(), " Kilometer".into()),
                };
                let digits = match &kind {
                    Kind::Money(c) => spec().currencies[c].digits,
                    _ => 2,
                };
                let remove = matches!(kind, Kind::Unit(..));
                // money is injected through a typed literal, and the literal reader admits only '.' and ','
                if matches!(kind, Kind::Money(_)) && dec != "," && dec != "." {
                    return None;
                }
                Some(Case { kind, x, digits, remove_zero_fract: remove, rounding: true, dec: dec.into(), thou: thou.into(), cross: false })
            },
        ));
        f.push(Family::new(
            "separator-setter-orders",
            Mode::Full,
            "every sequence of 1..=3 single setter calls over set_decimal_seperator in [',', '.', ';'] and set_thousand_separator in ['.', ',', '\''] on a fresh calculator, then [NUMBER:1234567.891] and [NUMBER:-0.5]: printed with the separators last set (whatever values they passed through), unless the two end up equal",
            move |ch| {
                let ops = ["d,", "d.", "d;", "t.", "t,", "t'"];
                let n = 1 + ch.choose(3);
                let mut seq = Vec::new();
                for _ in 0..n {
                    seq.push(ch.pick(&ops).to_string());
                }
                let x = *ch.pick(&[1234567.891, -0.5]);
                let (mut dec, mut thou) = (",".to_string(), ".".to_string());
                for o in seq.iter() {
                    if o.starts_with('d') {
                        dec = o[1..].to_string();
                    } else {
                        thou = o[1..].to_string();
                    }
                }
                if dec == thou {
                    return None; // identical separators: unspecified
                }
                Some(Case { kind: Kind::SetterOrder(seq), x, digits: 2, remove_zero_fract: true, rounding: true, dec, thou, cross: false })
            },
        ));
        {
            let seps = seps.clone();
            f.push(Family::new(
                "unit",
                Mode::Full,
                "unit quantities ([NUMBER:x] followed by m / kg / byte): 2 digits, zero-fraction removal on, rounding on (the built-in units' settings) x separators x value grid",
                move |ch| {
                    let (word, pre, post) = *ch.pick(&[("m", "", " Meter"), ("kg", "", " Kilogram"), ("byte", "", "byte")]);
                    let (dec, thou) = *ch.pick(&seps);
                    let g = grid(2, tier);
                    let x = *ch.pick(&g);
                    Some(Case { kind: Kind::Unit(word.into(), pre.into(), post.into()), x, digits: 2, remove_zero_fract: true, rounding: true, dec: dec.into(), thou: thou.into(), cross: false })
                },
            ));
        }
        {
            let seps = seps.clone();
            f.push(Family::new(
                "user-unit",
                Mode::Full,
                "quantities of a user-defined unit registered with its own format settings: digits [0, 2, 3] x zero-fraction removal on/off x rounding on/off (every combination, so that each flag is seen alone) x separators x value grid",
                move |ch| {
                    let digits = *ch.pick(&[2u8, 0, 3]);
                    let remove_zero_fract = ch.flag();
                    let rounding = !ch.flag();
                    let (dec, thou) = *ch.pick(&seps);
                    let g = grid(digits, Tier::Quick);
                    let x = *ch.pick(&g);
                    Some(Case { kind: Kind::UserUnit, x, digits, remove_zero_fract, rounding, dec: dec.into(), thou: thou.into(), cross: false })
                },
            ));
        }
        f
    }

    fn exec(&self, ctx: &mut Ctx, c: &Case) -> Verdict {
        if let Kind::SetterOrder(seq) = &c.kind {
            let mut calc = ctx.fresh(&Cfg::default());
            for o in seq.iter() {
                if o.starts_with('d') {
                    calc.set_decimal_seperator(o[1..].to_string());
                } else {
                    calc.set_thousand_separator(o[1..].to_string());
                }
            }
            let text = format!("[NUMBER:{}]", fmt_x(c.x));
            let run = crate::obs::eval(&calc, "en", &text);
            let mut v = Verdict { input: format!("{:?} then {}", seq, text), class: "accepted", compared: true, expected: format!("printed with decimal {:?} and thousands {:?}", c.dec, c.thou), observed: run.brief(), evals: 1, ..Default::default() };
            match run.single() {
                Some(Slot::Ok { out, .. }) => match accept(out, c.x, 2, true, true, &c.dec, &c.thou) {
                    Ok(class) => v.class = class,
                    Err(e) => v.violation = Some(e),
                },
                _ => {
                    if let Run::Panic(p) = &run {
                        v.site = Some(p.site.clone());
                    }
                    v.violation = Some("no printed value".into());
                }
            }
            return v;
        }
        let mut cfg = Cfg::seps(&c.dec, &c.thou);
        let text = match &c.kind {
            Kind::Number => {
                cfg.num = Some((c.digits, c.remove_zero_fract, c.rounding));
                format!("[NUMBER:{}]", fmt_x(c.x))
            }
            Kind::Percent => {
                cfg.pct = Some((c.digits, c.remove_zero_fract, c.rounding));
                format!("[PERCENT:{}]", fmt_x(c.x))
            }
            Kind::Money(code) => {
                cfg.money = Some((c.remove_zero_fract, c.rounding));
                // the [MONEY:x;code] atom cannot be used from a line: its ';' is rewritten by the
                // global alias table before the atom is read.  A money literal is exact as well:
                // Display of an f64 is its shortest round-trip form without exponent.
                format!("{} {}", format!("{}", c.x).replace('.', &c.dec), code)
            }
            Kind::Unit(word, _, _) => format!("[NUMBER:{}] {}", fmt_x(c.x), word),
            Kind::UserUnit => {
                cfg.user_unit = Some((c.digits, c.remove_zero_fract, c.rounding));
                format!("[NUMBER:{}] qq", fmt_x(c.x))
            }
            Kind::SetterOrder(_) => unreachable!(),
        };
        if c.cross {
            let opp = (9 - c.digits.min(9), !c.remove_zero_fract, !c.rounding);
            if !matches!(c.kind, Kind::Number) {
                cfg.num = Some(opp);
            }
            if !matches!(c.kind, Kind::Percent) {
                cfg.pct = Some(opp);
            }
            if !matches!(c.kind, Kind::Money(_)) {
                cfg.money = Some((opp.1, opp.2));
            }
            if !matches!(c.kind, Kind::UserUnit) {
                cfg.user_unit = Some(opp);
            }
        }
        let lc = LineCase::new(text.clone(), Expect::Unspecified, "format").with_cfg(cfg);
        let run = run_case(ctx, &lc);
        let input = format!("{} digits={} remove={} rounding={} dec={:?} thou={:?}{}", text, c.digits, c.remove_zero_fract, c.rounding, c.dec, c.thou, if c.cross { " others=opposite" } else { "" });
        let mut v = Verdict { input, class: "accepted", compared: true, expected: "well-formed, within half a unit of the last digit, correctly signed".into(), observed: run.brief(), evals: 1, ..Default::default() };
        let out = match &run {
            Run::Panic(p) => {
                v.violation = Some(format!("panic: {}", p.message));
                v.site = Some(p.site.clone());
                return v;
            }
            _ => match run.single() {
                Some(Slot::Ok { out, .. }) => out.clone(),
                _ => {
                    v.violation = Some("no printed value".into());
                    return v;
                }
            },
        };
        // strip the decoration of the kind
        let body: Result<String, String> = match &c.kind {
            Kind::Number => Ok(out.clone()),
            Kind::Percent => out.strip_prefix('%').map(|s| s.to_string()).ok_or_else(|| "percentage not printed with a leading %".to_string()),
            Kind::Money(code) => {
                let cur = &spec().currencies[code];
                let stripped = match (cur.symbol_on_left, cur.space) {
                    (true, true) => out.strip_prefix(&format!("{} ", cur.symbol)),
                    (true, false) => out.strip_prefix(&cur.symbol),
                    (false, true) => out.strip_suffix(&format!(" {}", cur.symbol)),
                    (false, false) => out.strip_suffix(&cur.symbol),
                };
                stripped.map(|s| s.to_string()).ok_or_else(|| format!("money not printed with symbol {:?} in the configured placement", cur.symbol))
            }
            Kind::SetterOrder(_) => unreachable!(),
            Kind::UserUnit => out.strip_suffix(" qq").map(|s| s.to_string()).ok_or_else(|| "user-defined unit quantity not printed through the unit's format".to_string()),
            Kind::Unit(_, pre, post) => out.strip_prefix(pre.as_str()).and_then(|s| s.strip_suffix(post.as_str())).map(|s| s.to_string()).ok_or_else(|| "unit quantity not printed through the unit's format".to_string()),
        };
        match body.and_then(|b| accept(&b, c.x, c.digits, c.remove_zero_fract, c.rounding, &c.dec, &c.thou).map_err(|e| e)) {
            Ok(class) => v.class = class,
            Err(e) => v.violation = Some(e),
        }
        v
    }

    fn rule(&self) -> String {
        "cases are all combinations of kind, digit count, the two flags, separator pair and the value grid of that digit count; every case is non-trivial: the printed string is parsed and checked by an exact decimal-arithmetic acceptance predicate (shape, |printed - value| <= half a unit of the last digit, sign, zero-fraction removal); distinct = distinct (value, configuration)".into()
    }
    fn assumptions(&self) -> Vec<String> {
        vec![
            "values are injected exactly through [NUMBER:x] / [PERCENT:x] / [MONEY:x;code]; x is written in Rust's shortest round-trip form".into(),
            "unspecified and therefore accepted: which neighbour is printed on an exact binary tie; the sign shown for a negative value that prints as zero; with rounding disabled only shape, half-unit closeness and sign are demanded".into(),
        ]
    }
}
