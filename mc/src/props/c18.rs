//! C18 — custom rules and user-defined unit families: registration, effect, removal.

use crate::explore::{Bfs, Family, Mode, Verdict};
use crate::obs::{self, Base, Run, Slot, Val};
use crate::runner::{Cfg, Ctx, Prop, Tier};
use crate::seam;
use serde::{Deserialize, Serialize};
use smartcalc::{NumberType, RuleTrait, SmartCalc, SmartCalcConfig, TokenType};
use std::collections::BTreeMap;
use std::rc::Rc;

pub struct C18;

#[derive(Clone, Debug, Serialize, Deserialize, PartialEq)]
pub enum Op {
    /// add_rule(lang, rule id)
    AddRule(String, char),
    /// delete_rule(lang, name)
    DelRule(String, String),
    /// add_dynamic_type(name)
    AddType(String),
    /// add_dynamic_type_item("t1", variant): variants 1, 2, 3 and 9 (= index 2 again, other codes)
    AddItem(u8),
    /// add_dynamic_type_item("t2", index): a second user family whose indices are 2, 3, 4 (they do
    /// not start at 1 and may be registered in any order)
    AddItem2(u8),
}

#[derive(Clone, Debug, Serialize, Deserialize)]
pub struct Case {
    pub ops: Vec<Op>,
    /// rule-only history: may run on a pooled calculator whose rules are deleted again afterwards
    /// (every violation is confirmed on a fresh calculator before it is reported)
    #[serde(default)]
    pub pooled: bool,
    /// merged breadth-first layer: (max live English rules, max live Turkish rules) of the state
    /// constraint; the verdict then carries the canonical key of the state reached
    #[serde(default, skip_serializing_if = "Option::is_none")]
    pub bfs: Option<(usize, usize)>,
    /// probe with one line per built-in rule pattern of en and tr as well (about 70 more lines)
    #[serde(default, skip_serializing_if = "std::ops::Not::not")]
    pub full_probe: bool,
    /// only the lines in which the first word of a pattern is repeated directly in front of the
    /// match ('foo foo 5') are evaluated
    #[serde(default, skip_serializing_if = "Option::is_none")]
    pub restart_probe: Option<String>,
    /// a line over the user family 'zero' (Cfg.zero_unit: items at the indices 0, 1, 2, each ten of
    /// the one below) with its expected amount and item index
    #[serde(default, skip_serializing_if = "Option::is_none")]
    pub zero_line: Option<(String, f64, usize)>,
}

/// Reference for the pattern-restart lines: words and numbers; a surviving English rule rewrites a
/// run '<its word> <n>' (unless it declines) into its result, rewriting goes on until no rule
/// matches, words that are left over are dropped and the numbers are added.
fn rewrite_value(rules: &[(String, char)], line: &str) -> f64 {
    #[derive(Clone, PartialEq)]
    enum K {
        W(String),
        N(f64),
    }
    let mut toks: Vec<K> = line.split(' ').map(|w| w.parse::<f64>().map(K::N).unwrap_or_else(|_| K::W(w.to_string()))).collect();
    // (pattern words in pattern order, result)
    let patterns = |id: char| -> Vec<&'static str> {
        match id {
            'A' => vec!["foo"],
            'B' => vec!["foo", "bar"],
            'E' => vec!["qux"],
            'G' => vec!["crate"],
            _ => vec![],
        }
    };
    let result = |id: char, n: f64| -> Option<f64> {
        match id {
            'A' if n != 7.0 => Some(n + 100.0),
            'B' => Some(n + 200.0),
            'E' => Some(n + 400.0),
            'G' => Some(n + 600.0),
            _ => None,
        }
    };
    // passes: every rule, in registration order, is applied at most once per pass (its first
    // pattern that matches somewhere, at the leftmost place); passes go on while anything changes
    for _ in 0..32 {
        let mut changed = false;
        for (l, id) in rules.iter() {
            if l != "en" {
                continue;
            }
            'patterns: for w in patterns(*id) {
                for i in 0..toks.len().saturating_sub(1) {
                    if let (K::W(x), K::N(n)) = (&toks[i], &toks[i + 1]) {
                        if x == w {
                            if let Some(v) = result(*id, *n) {
                                toks.splice(i..i + 2, [K::N(v)]);
                                changed = true;
                                break 'patterns;
                            }
                        }
                    }
                }
            }
        }
        if !changed {
            break;
        }
    }
    toks.iter().map(|t| if let K::N(n) = t { *n } else { 0.0 }).sum()
}

// ---- the rules ---------------------------------------------------------------------------

struct NumRule {
    name: &'static str,
    add: f64,
    decline: Option<f64>,
}
impl RuleTrait for NumRule {
    fn name(&self) -> String {
        self.name.to_string()
    }
    fn call(&self, _: &SmartCalcConfig, fields: &BTreeMap<String, TokenType>) -> Option<TokenType> {
        match fields.get("n") {
            Some(TokenType::Number(n, _)) => {
                if Some(*n) == self.decline {
                    return None;
                }
                Some(TokenType::Number(n + self.add, NumberType::Decimal))
            }
            _ => None,
        }
    }
}

/// rule D: the word 'dozen' is the number 12
struct ConstRule;
impl RuleTrait for ConstRule {
    fn name(&self) -> String {
        "D".to_string()
    }
    fn call(&self, _: &SmartCalcConfig, _: &BTreeMap<String, TokenType>) -> Option<TokenType> {
        Some(TokenType::Number(12.0, NumberType::Decimal))
    }
}

/// rule T: n * 100 + m
struct PairRule;
impl RuleTrait for PairRule {
    fn name(&self) -> String {
        "T".to_string()
    }
    fn call(&self, _: &SmartCalcConfig, fields: &BTreeMap<String, TokenType>) -> Option<TokenType> {
        match (fields.get("n"), fields.get("m")) {
            (Some(TokenType::Number(n, _)), Some(TokenType::Number(m, _))) => Some(TokenType::Number(n * 100.0 + m, NumberType::Decimal)),
            _ => None,
        }
    }
}

/// rule G: the number bound to the field 'perCrate', plus 600
struct NamedFieldRule;
impl RuleTrait for NamedFieldRule {
    fn name(&self) -> String {
        "G".to_string()
    }
    fn call(&self, _: &SmartCalcConfig, fields: &BTreeMap<String, TokenType>) -> Option<TokenType> {
        match fields.get("perCrate") {
            Some(TokenType::Number(n, _)) => Some(TokenType::Number(n + 600.0, NumberType::Decimal)),
            _ => None,
        }
    }
}

/// rule F: the amount of a quantity of the user family t1, plus 500
struct UnitRule;
impl RuleTrait for UnitRule {
    fn name(&self) -> String {
        "F".to_string()
    }
    fn call(&self, _: &SmartCalcConfig, fields: &BTreeMap<String, TokenType>) -> Option<TokenType> {
        match fields.get("q") {
            Some(TokenType::DynamicType(n, _)) => Some(TokenType::Number(n + 500.0, NumberType::Decimal)),
            _ => None,
        }
    }
}

struct Coin;
impl RuleTrait for Coin {
    fn name(&self) -> String {
        "C".to_string()
    }
    fn call(&self, cfg: &SmartCalcConfig, fields: &BTreeMap<String, TokenType>) -> Option<TokenType> {
        let count = match fields.get("count") {
            Some(TokenType::Number(n, _)) => *n,
            _ => return None,
        };
        let coin = match fields.get("coin") {
            Some(TokenType::Text(t)) => t.clone(),
            _ => return None,
        };
        let price = match &coin[..] {
            "btc" => 1000.0 * count,
            _ => return None,
        };
        Some(TokenType::Money(price, cfg.get_currency("usd".to_string())?))
    }
}

/// rule id -> (name, patterns, object)
fn rule(id: char) -> (Vec<String>, Rc<dyn RuleTrait>) {
    match id {
        'A' => (vec!["foo {NUMBER:n}".into()], Rc::new(NumRule { name: "A", add: 100.0, decline: Some(7.0) })),
        'B' => (vec!["foo {NUMBER:n}".into(), "bar {NUMBER:n}".into()], Rc::new(NumRule { name: "B", add: 200.0, decline: None })),
        // two patterns: on '3 pcs btc' the first one matches '3 pcs' and the rule declines (no coin
        // 'pcs'); the second pattern must still be tried
        'C' => (vec!["{NUMBER:count} {TEXT:coin}".into(), "{NUMBER:count} pcs {TEXT:coin}".into()], Rc::new(Coin)),
        // a pattern of a single token: the rewrite does not shorten the line
        'D' => (vec!["dozen".into()], Rc::new(ConstRule)),
        // literal words that are operator aliases of the language ('times', 'sum'): a pattern is read like a line
        'T' => (vec!["{NUMBER:n} times {NUMBER:m}".into(), "sum {NUMBER:n} {NUMBER:m}".into()], Rc::new(PairRule)),
        // a typed unit field that names the user family t1 (the family may be added later)
        'F' => (vec!["deposit {DYNAMIC_TYPE:q:t1}".into()], Rc::new(UnitRule)),
        // a field name with capital letters: the rule reads the field by the name as written
        'G' => (vec!["crate {NUMBER:perCrate}".into()], Rc::new(NamedFieldRule)),
        // an empty pattern text next to a usable one: add_rule takes any list of texts
        'E' => (vec!["".into(), "qux {NUMBER:n}".into()], Rc::new(NumRule { name: "E", add: 400.0, decline: None })),
        // same name as A, other pattern (with a capital letter) and result
        _ => (vec!["Baz {NUMBER:n}".into()], Rc::new(NumRule { name: "A", add: 300.0, decline: None })),
    }
}

fn rule_name(id: char) -> &'static str {
    match id {
        'A' | 'Q' => "A",
        'B' => "B",
        'T' => "T",
        'D' => "D",
        'E' => "E",
        'F' => "F",
        'G' => "G",
        _ => "C",
    }
}

fn item_args(variant: u8) -> (usize, &'static str, &'static str, &'static str, &'static str) {
    // (index, unit name, upgrade, downgrade, format)
    match variant {
        1 => (1, "aone", "{value} / 2", "{value}", "{value} aone"),
        2 => (2, "atwo", "{value} / 5", "{value} * 2", "{value} atwo"),
        3 => (3, "athree", "{value}", "{value} * 5", "{value} athree"),
        // index 2 again, with other codes: must be rejected without any change
        _ => (2, "atwo", "{value} / 7", "{value} * 7", "{value} atwoB"),
    }
}

fn item2_args(index: u8) -> (usize, &'static str, &'static str, &'static str, &'static str) {
    // btwo = 1, bthree = 4 btwo, bfour = 3 bthree
    match index {
        2 => (2, "btwo", "{value} / 4", "{value}", "{value} btwo"),
        3 => (3, "bthree", "{value} / 3", "{value} * 4", "{value} bthree"),
        _ => (4, "bfour", "{value}", "{value} * 3", "{value} bfour"),
    }
}

fn apply(calc: &mut SmartCalc, op: &Op) -> Result<bool, seam::PanicInfo> {
    seam::guarded(|| match op {
        Op::AddRule(lang, id) => {
            let (pats, r) = rule(*id);
            calc.add_rule(lang.clone(), pats, r)
        }
        Op::DelRule(lang, name) => calc.delete_rule(lang.clone(), name.clone()),
        Op::AddType(name) => calc.add_dynamic_type(name.as_str()),
        Op::AddItem(variant) => {
            let (index, unit, up, down, format) = item_args(*variant);
            let parse = format!("{{NUMBER:value}} {{TEXT:type:{}}}", unit);
            calc.add_dynamic_type_item("t1", index, format, vec![parse.as_str()], up, down, vec![unit.to_string()], None, None, None)
        }
        Op::AddItem2(index) => {
            let (index, unit, up, down, format) = item2_args(*index);
            let parse = format!("{{NUMBER:value}} {{TEXT:type:{}}}", unit);
            calc.add_dynamic_type_item("t2", index, format, vec![parse.as_str()], up, down, vec![unit.to_string()], None, None, None)
        }
    })
}

// ---- the model ----------------------------------------------------------------------------

#[derive(Clone, Debug, PartialEq, Default)]
struct Model {
    /// surviving (language, rule id) in registration order
    rules: Vec<(String, char)>,
    /// does the user family t1 exist, and which item variants were accepted (by index)
    t1: Option<BTreeMap<usize, u8>>,
    /// does the user family t2 exist, and which of its indices (2, 3, 4) are registered
    t2: Option<std::collections::BTreeSet<usize>>,
}

impl Model {
    /// expected return value; alternatives = possible successor models (deleting a name that two
    /// surviving rules share is ambiguous in the statement: either may be the one removed)
    fn step(&self, op: &Op) -> (bool, Vec<Model>) {
        let mut m = self.clone();
        match op {
            Op::AddRule(lang, id) => {
                if lang == "en" || lang == "tr" {
                    m.rules.push((lang.clone(), *id));
                    (true, vec![m])
                } else {
                    (false, vec![m])
                }
            }
            Op::DelRule(lang, name) => {
                let idxs: Vec<usize> = m.rules.iter().enumerate().filter(|(_, (l, id))| l == lang && rule_name(*id) == name).map(|(i, _)| i).collect();
                if idxs.is_empty() {
                    return (false, vec![m]);
                }
                let mut alts = Vec::new();
                for i in [idxs[0], *idxs.last().unwrap()] {
                    let mut a = self.clone();
                    a.rules.remove(i);
                    if !alts.contains(&a) {
                        alts.push(a);
                    }
                }
                (true, alts)
            }
            Op::AddType(name) => {
                if name == "t1" && m.t1.is_none() {
                    m.t1 = Some(BTreeMap::new());
                    (true, vec![m])
                } else if name == "t2" && m.t2.is_none() {
                    m.t2 = Some(Default::default());
                    (true, vec![m])
                } else {
                    // "memory" is a built-in family, a second t1 is a duplicate
                    (false, vec![m])
                }
            }
            Op::AddItem2(index) => match &mut m.t2 {
                None => (false, vec![self.clone()]),
                Some(items) => {
                    if items.insert(*index as usize) {
                        (true, vec![m])
                    } else {
                        (false, vec![self.clone()])
                    }
                }
            },
            Op::AddItem(variant) => {
                let (index, ..) = item_args(*variant);
                match &mut m.t1 {
                    None => (false, vec![self.clone()]),
                    Some(items) => {
                        if items.contains_key(&index) {
                            (false, vec![self.clone()])
                        } else {
                            items.insert(index, *variant);
                            (true, vec![m])
                        }
                    }
                }
            }
        }
    }

    /// replay the survivors on a fresh calculator, in order
    fn build(&self, ctx: &mut Ctx) -> SmartCalc {
        let mut calc = ctx.fresh(&Cfg::default());
        for (lang, id) in self.rules.iter() {
            let _ = apply(&mut calc, &Op::AddRule(lang.clone(), *id));
        }
        if let Some(items) = &self.t1 {
            let _ = apply(&mut calc, &Op::AddType("t1".into()));
            for (_, variant) in items.iter() {
                let _ = apply(&mut calc, &Op::AddItem(*variant));
            }
        }
        if let Some(items) = &self.t2 {
            let _ = apply(&mut calc, &Op::AddType("t2".into()));
            for i in items.iter() {
                let _ = apply(&mut calc, &Op::AddItem2(*i as u8));
            }
        }
        calc
    }

    /// chain arithmetic of the second family (indices 2, 3, 4)
    fn convert2(&self, amount: f64, from: usize, to: usize) -> Option<f64> {
        let items = self.t2.as_ref()?;
        for i in from.min(to)..=from.max(to) {
            if !items.contains(&i) {
                return None;
            }
        }
        let size = |i: usize| match i {
            2 => 1.0,
            3 => 4.0,
            _ => 12.0,
        };
        Some(amount * size(from) / size(to))
    }

    /// chain arithmetic of the user family: amount of `from` expressed in `to` (None: chain broken)
    fn convert(&self, amount: f64, from: usize, to: usize) -> Option<f64> {
        let items = self.t1.as_ref()?;
        let (lo, hi) = (from.min(to), from.max(to));
        for i in lo..=hi {
            // every step needs its declared codes: only variants 1, 2, 3 carry the model's chain
            match items.get(&i) {
                Some(v) if *v as usize == i => {}
                _ => return None,
            }
        }
        // aone -> atwo: / 2 ; atwo -> athree: / 5 ; down: * 5, * 2
        let size = |i: usize| match i {
            1 => 1.0,
            2 => 2.0,
            _ => 10.0,
        };
        Some(amount * size(from) / size(to))
    }
}

/// "2 dm to cm" comes first: it has the same (source index, target index, amount) as
/// "2 athree to atwo" and "2 bthree to btwo" in the two user families
const PROBES_EN: [&str; 38] = ["2 dm to cm", "deposit 3 aone", "foo 5", "foo 7", "bar 5", "baz 5", "FOO 5", "Bar 5", "BAZ 5", "foo 5 + 1", "foo 7 + bar 1", "3 btc", "3 pcs btc", "3 pcs btc + 2 btc", "3 xyz", "3 btc to try", "10 usd to try", "1 hour 30 minutes", "10% of 200", "2 aone to atwo", "20 aone to athree", "0,000000003 aone to athree", "3 athree to aone", "1 atwo to aone", "2 athree to atwo", "5 kb to byte", "24 btwo to bfour", "1 bfour to btwo", "8 btwo to bthree", "2 bthree to btwo", "4 times 5", "sum 7 8", "dozen", "dozen dozen", "dozen + dozen + 1", "dozen usd to try", "n = 20\nn aone to athree", "n = 24\nn btwo to bfour"];
const PROBES_TR: [&str; 4] = ["foo 5", "foo 7", "bar 5", "2 gün"];

fn probe_full(calc: &SmartCalc) -> Vec<(String, Run)> {
    let mut out = probe(calc);
    for lang in ["en", "tr"] {
        for line in super::c01::default_rule_lines(lang) {
            out.push((format!("{}|{}", lang, line), obs::eval(calc, lang, &line)));
        }
    }
    out
}

fn probe(calc: &SmartCalc) -> Vec<(String, Run)> {
    let mut out = Vec::new();
    for p in PROBES_EN {
        out.push((format!("en|{}", p), obs::eval(calc, "en", p)));
    }
    for p in PROBES_TR {
        out.push((format!("tr|{}", p), obs::eval(calc, "tr", p)));
    }
    out
}

fn ops_alphabet() -> Vec<Op> {
    let mut v = Vec::new();
    for id in ['A', 'B', 'C', 'Q'] {
        v.push(Op::AddRule("en".into(), id));
    }
    v.push(Op::AddRule("tr".into(), 'A'));
    v.push(Op::AddRule("tr".into(), 'B'));
    v.push(Op::AddRule("xx".into(), 'A'));
    for n in ["A", "B", "C", "Z"] {
        v.push(Op::DelRule("en".into(), n.into()));
    }
    v.push(Op::DelRule("tr".into(), "A".into()));
    v.push(Op::DelRule("xx".into(), "A".into()));
    v.push(Op::AddType("t1".into()));
    v.push(Op::AddType("memory".into()));
    for variant in [1u8, 2, 3, 9] {
        v.push(Op::AddItem(variant));
    }
    v
}

impl Prop for C18 {
    type Case = Case;
    fn id(&self) -> &'static str {
        "C18"
    }

    fn families(&self, tier: Tier) -> Vec<Family<Case>> {
        let mut f = Vec::new();
        let alphabet = ops_alphabet();
        let n = alphabet.len();
        // quick: un-merged to depth 2, the merged layer (reachable-states) goes to depth 4;
        // thorough: un-merged to depth 4
        let d = tier.pick(2, 4);
        {
            let alphabet = alphabet.clone();
            f.push(Family::new(
                "histories",
                Mode::Full,
                &format!("every sequence of 1..={} operations over {} operations: add_rule(en|tr|xx, A | B | C (coin rule) | A' (same name as A)), delete_rule(en|tr|xx, A | B | C | Z), add_dynamic_type(t1 | memory), add_dynamic_type_item(t1, index 1 | 2 | 3 | 2 again with other codes); return values against the model after every call, 21 probe lines (en and tr) after the last", d, n),
                move |ch| {
                    let len = 1 + ch.choose(d);
                    let mut ops = Vec::new();
                    for _ in 0..len {
                        ops.push(ch.pick(&alphabet).clone());
                    }
                    Some(Case { ops, pooled: false, bfs: None, full_probe: false, restart_probe: None, zero_line: None })
                },
            ));
        }
        {
            // deeper histories around the unit family and around add/delete cycles
            let k = tier.pick(5, 6);
            let alphabet = alphabet.clone();
            f.push(Family::new(
                "histories-deep",
                Mode::Deviations(2),
                &format!("histories of {} operations starting from the background [add t1, item 1, item 2, item 3, add A, add B ...] with at most 2 operations replaced by any operation of the alphabet", k),
                move |ch| {
                    let background = [Op::AddType("t1".into()), Op::AddItem(1), Op::AddItem(2), Op::AddItem(3), Op::AddRule("en".into(), 'A'), Op::AddRule("en".into(), 'B')];
                    let mut ops = Vec::new();
                    for i in 0..k {
                        let mut choices = vec![background[i % background.len()].clone()];
                        choices.extend(alphabet.iter().cloned());
                        ops.push(ch.pick_dev(&choices).clone());
                    }
                    Some(Case { ops, pooled: false, bfs: None, full_probe: false, restart_probe: None, zero_line: None })
                },
            ));
        }
        f.push(Family::new(
            "index-zero-family",
            Mode::Full,
            "a user family whose lowest item has index 0 (zaa 0, zbb 1, zcc 2, each ten of the one below; item indices are plain usize values): 'N A to B' for every ordered pair and N in [1, 20, 500, 0,5], 'N A + M B' and the amount held in a variable: converts along the declared chain, also down to index 0",
            move |ch| {
                let names = ["zaa", "zbb", "zcc"];
                let i = ch.choose(3);
                let j = ch.choose(3);
                let (nt, n) = *ch.pick(&[("1", 1.0), ("20", 20.0), ("500", 500.0), ("0,5", 0.5)]);
                let factor = 10f64.powi(i as i32 - j as i32);
                let (line, want, idx) = match ch.choose(3) {
                    0 => (format!("{} {} to {}", nt, names[i], names[j]), n * factor, j),
                    1 => (format!("{} {} + 5 {}", nt, names[i], names[j]), n + 5.0 / factor, i),
                    _ => (format!("n = {}\nn {} to {}", nt, names[i], names[j]), n * factor, j),
                };
                Some(Case { ops: Vec::new(), pooled: false, bfs: None, full_probe: false, restart_probe: None, zero_line: Some((line, want, idx)) })
            },
        ));
        f.push(Family::new(
            "typed-unit-field-rules",
            Mode::Full,
            "every sequence of 1..=4 operations over [add rule F ('deposit {DYNAMIC_TYPE:q:t1}', a typed unit field naming the user family), add family t1, add item 1 (aone), delete F]: whenever F survives and t1 has the unit, 'deposit 3 aone' evaluates to the token F returns - whether the rule or the family was registered first",
            move |ch| {
                let alphabet = [Op::AddRule("en".into(), 'F'), Op::AddType("t1".into()), Op::AddItem(1), Op::DelRule("en".into(), "F".into())];
                let len = 1 + ch.choose(4);
                let mut ops = Vec::new();
                for _ in 0..len {
                    ops.push(ch.pick(&alphabet).clone());
                }
                Some(Case { ops, pooled: false, bfs: None, full_probe: false, restart_probe: None, zero_line: None })
            },
        ));
        f.push(Family::new(
            "pattern-restart",
            Mode::Full,
            "every sequence of 1..=2 operations over [add A ('foo {NUMBER:n}'), add B ('foo {NUMBER:n}', 'bar {NUMBER:n}'), add E (an empty pattern text and 'qux {NUMBER:n}'), add G ('crate {NUMBER:perCrate}', a field name with a capital letter that the rule reads as written), delete A, delete B, delete E], probed with lines in which a word stands directly in front of the matching run: 'foo foo 5', 'bar bar 5', 'foo bar 5', 'bar foo 5', 'qux foo 5', 'foo foo 7', '5 foo foo 5', and with 'qux 5', '1 + 2', 'crate 5', 'crate 5 + foo 5': the word in front is a plain word whether or not it equals the first word of the pattern",
            move |ch| {
                let alphabet = [Op::AddRule("en".into(), 'A'), Op::AddRule("en".into(), 'B'), Op::AddRule("en".into(), 'E'), Op::AddRule("en".into(), 'G'), Op::DelRule("en".into(), "A".into()), Op::DelRule("en".into(), "B".into()), Op::DelRule("en".into(), "E".into())];
                let len = 1 + ch.choose(2);
                let mut ops = Vec::new();
                for _ in 0..len {
                    ops.push(ch.pick(&alphabet).clone());
                }
                let line = *ch.pick(&["foo foo 5", "bar bar 5", "foo bar 5", "bar foo 5", "qux foo 5", "foo foo 7", "5 foo foo 5", "qux 5", "1 + 2", "crate 5", "crate 5 + foo 5"]);
                Some(Case { ops, pooled: false, bfs: None, full_probe: false, restart_probe: Some(line.to_string()), zero_line: None })
            },
        ));
        {
            let d = tier.pick(3, 4);
            f.push(Family::new(
                "builtin-rules-survive",
                Mode::Full,
                &format!("every sequence of 1..={} operations over [add A, add B, add C, delete A, delete B, delete Z] in English and [add A, delete A] in Turkish, probed with the usual 21 lines AND one line per built-in rule pattern of en and tr (every field at its default value, generated from config.json): after any registrations and deletions every built-in rule still fires exactly as on a fresh calculator carrying the survivors", d),
                move |ch| {
                    let alphabet = [Op::AddRule("en".into(), 'A'), Op::AddRule("en".into(), 'B'), Op::AddRule("en".into(), 'C'), Op::DelRule("en".into(), "A".into()), Op::DelRule("en".into(), "B".into()), Op::DelRule("en".into(), "Z".into()), Op::AddRule("tr".into(), 'A'), Op::DelRule("tr".into(), "A".into())];
                    let len = 1 + ch.choose(d);
                    let mut ops = Vec::new();
                    for _ in 0..len {
                        ops.push(ch.pick(&alphabet).clone());
                    }
                    Some(Case { ops, pooled: false, bfs: None, full_probe: true, restart_probe: None, zero_line: None })
                },
            ));
        }
        f.push(Family::new(
            "alias-word-rules",
            Mode::Full,
            "every sequence of 0..=3 operations over [add T (patterns '{NUMBER} times {NUMBER}' and 'sum {NUMBER} {NUMBER}': literal words that are operator aliases), delete T, add A, delete A, add D (the one-token pattern 'dozen'), delete D], on a plain calculator and behind the registration of both user families (t1 with items 1-3, t2 with items 2-4): the rule fires on '4 times 5' and 'sum 7 8' while it is registered and the built-in meaning returns when it is deleted; with both user families present the same-index, same-amount conversions of different families keep their own values",
            move |ch| {
                let alphabet = [Op::AddRule("en".into(), 'T'), Op::DelRule("en".into(), "T".into()), Op::AddRule("en".into(), 'A'), Op::DelRule("en".into(), "A".into()), Op::AddRule("en".into(), 'D'), Op::DelRule("en".into(), "D".into())];
                let mut ops = Vec::new();
                if ch.flag() {
                    // both user families complete: their items share indices with each other and with the built-in families
                    ops.extend([Op::AddType("t1".into()), Op::AddItem(1), Op::AddItem(2), Op::AddItem(3), Op::AddType("t2".into()), Op::AddItem2(2), Op::AddItem2(3), Op::AddItem2(4)]);
                }
                let len = ch.choose(4);
                for _ in 0..len {
                    ops.push(ch.pick(&alphabet).clone());
                }
                if ops.is_empty() {
                    return None;
                }
                Some(Case { ops, pooled: false, bfs: None, full_probe: false, restart_probe: None, zero_line: None })
            },
        ));
        let offset_depth = tier.pick(4, 6);
        f.push(Family::new(
            "offset-family",
            Mode::Full,
            "every sequence of 1..=4 (thorough: 6) operations over [add_dynamic_type(t2), add_dynamic_type_item(t2, 2 | 3 | 4), add_rule(en, C)]: a user family whose indices do not start at 1, registered in every order (and with duplicates), next to a rule that matches '<number> <word>' and declines; chain arithmetic against the model",
            move |ch| {
                let alphabet = [Op::AddType("t2".into()), Op::AddItem2(2), Op::AddItem2(3), Op::AddItem2(4), Op::AddRule("en".into(), 'C')];
                let len = 1 + ch.choose(offset_depth);
                let mut ops = Vec::new();
                for _ in 0..len {
                    ops.push(ch.pick(&alphabet).clone());
                }
                Some(Case { ops, pooled: false, bfs: None, full_probe: false, restart_probe: None, zero_line: None })
            },
        ));
        {
            let d = tier.pick(4, 5);
            f.push(Family::new(
                "rule-cycles",
                Mode::Full,
                &format!("every sequence of 1..={} operations over the 8 English rule operations only (add A | B | C | A', delete A | B | C | Z): registration order, deletion from the middle, re-registration", d),
                move |ch| {
                    let mut alphabet: Vec<Op> = Vec::new();
                    for id in ['A', 'B', 'C', 'Q'] {
                        alphabet.push(Op::AddRule("en".into(), id));
                    }
                    for n in ["A", "B", "C", "Z"] {
                        alphabet.push(Op::DelRule("en".into(), n.into()));
                    }
                    let len = 1 + ch.choose(d);
                    let mut ops = Vec::new();
                    for _ in 0..len {
                        ops.push(ch.pick(&alphabet).clone());
                    }
                    Some(Case { ops, pooled: true, bfs: None, full_probe: false, restart_probe: None, zero_line: None })
                },
            ));
        }
        f
    }

    fn bfs_layers(&self, tier: Tier) -> Vec<Bfs<Case>> {
        let alphabet = ops_alphabet();
        let n = alphabet.len();
        let (max_en, max_tr, depth) = tier.pick((2, 1, 4), (3, 1, 12));
        vec![Bfs::new(
            "reachable-states",
            &format!("explicit-state search over ALL {} operations from the fresh calculator; a state is the model state (ordered surviving rules per language, user family items) together with the fingerprint of the 21 probe observations; state constraint: at most {} live English and {} live Turkish custom rules (states beyond it are checked but not expanded); every edge replays the shortest history to its source state on a fresh calculator, applies the operation and runs the full oracle (return values, fresh-calculator equivalence, rule effect, chain arithmetic); depth bound {}", n, max_en, max_tr, depth),
            n,
            depth,
            move |h| Case { ops: h.iter().map(|i| alphabet[*i].clone()).collect(), pooled: false, bfs: Some((max_en, max_tr)), full_probe: false, restart_probe: None, zero_line: None },
        )]
    }

    fn rule(&self) -> String {
        "cases are all operation histories within the stated alphabet and depth (every prefix is itself a case); each history runs on its own fresh calculator; non-trivial = return value of every call compared with the model (ordered list of surviving rules, map of user unit items), and after the last call 21 probe lines (en and tr) compared (a) differentially with a fresh calculator on which only the survivors were registered in order, (b) with the token the first matching, non-declining surviving rule returns, (c) with the chain arithmetic of the user family; distinct = distinct history".into()
    }
    fn assumptions(&self) -> Vec<String> {
        vec![
            "deleting a name that two surviving rules share is ambiguous in the statement: either the first or the last may be the one removed (both survivor sets are accepted)".into(),
            "rules with an empty pattern, rules whose result matches their own pattern and set_date_rule interleavings are out of scope".into(),
        ]
    }

    /// known finding: the matching run is skipped altogether, the line evaluates as if no rule
    /// were registered (words dropped, numbers added)
    fn defect_model(&self, name: &str, case: &Case, v: &Verdict) -> bool {
        if name != "rule-not-applied" {
            return false;
        }
        match &case.restart_probe {
            Some(line) => {
                let sum: f64 = line.split(' ').filter_map(|w| w.parse::<f64>().ok()).sum();
                v.observed.ends_with(&format!("=> Number({:?}, Dec)", sum))
            }
            None => false,
        }
    }

    fn exec(&self, ctx: &mut Ctx, c: &Case) -> Verdict {
        if let Some((line, want, idx)) = &c.zero_line {
            let cfg = Cfg { zero_unit: true, ..Default::default() };
            let r = obs::eval(ctx.calc(&cfg), "en", line);
            let mut v = Verdict { input: format!("[zero family] {}", line.replace('\n', " \\n ")), class: "chain-compared", compared: true, expected: format!("Unit({:?}, zero, {})", want, idx), observed: r.brief(), evals: 1, ..Default::default() };
            match &r {
                Run::Panic(p) => {
                    v.violation = Some(format!("panic: {}", p.message));
                    v.site = Some(p.site.clone());
                }
                _ => match r.last() {
                    Some(Slot::Ok { val: Val::Unit(x, g, i), .. }) if obs::close(*x, *want, 1e-9) && g == "zero" && i == idx => {}
                    _ => v.violation = Some("the user-defined family does not convert along its declared chain".into()),
                },
            }
            return v;
        }
        let mut calc = match (c.pooled, ctx.pool.take()) {
            (true, Some(calc)) => calc,
            _ => ctx.fresh(&Cfg::default()),
        };
        let v = self.exec_on(ctx, c, &mut calc);
        if c.pooled && v.violation.is_none() {
            // undo: delete every custom rule again; a calculator that does not come back clean is dropped
            let mut clean = true;
            for name in ["A", "B", "C"] {
                let mut guard = 0;
                loop {
                    match seam::guarded(|| calc.delete_rule("en".to_string(), name.to_string())) {
                        Ok(true) => {
                            guard += 1;
                            if guard > 16 {
                                clean = false;
                                break;
                            }
                        }
                        Ok(false) => break,
                        Err(_) => {
                            clean = false;
                            break;
                        }
                    }
                }
            }
            if clean {
                ctx.pool = Some(calc);
            }
        }
        v
    }
}

impl C18 {
    fn exec_on(&self, ctx: &mut Ctx, c: &Case, calc: &mut SmartCalc) -> Verdict {
        let mut v = Verdict { input: format!("{:?}", c.ops), class: "history-compared", compared: true, ..Default::default() };
        let mut models = vec![Model::default()];
        let mut trace = String::new();
        for (i, op) in c.ops.iter().enumerate() {
            let got = match apply(calc, op) {
                Ok(b) => b,
                Err(p) => {
                    v.violation = Some(format!("step {}: panic in {:?}: {}", i, op, p.message));
                    v.site = Some(p.site);
                    v.observed = trace;
                    return v;
                }
            };
            trace.push_str(&format!("{:?}={} ", op, got));
            let mut next = Vec::new();
            let mut want = None;
            for m in models.iter() {
                let (w, alts) = m.step(op);
                want = Some(w);
                for a in alts {
                    if !next.contains(&a) {
                        next.push(a);
                    }
                }
            }
            models = next;
            if Some(got) != want {
                v.expected = format!("{:?} returns {:?}", op, want);
                v.violation = Some(format!("step {}: {:?} returned {}", i, op, got));
                v.observed = trace;
                return v;
            }
        }
        if let Some(line) = &c.restart_probe {
            // a line matches a pattern when some run of its tokens does: the word in front of the
            // run is a plain word (dropped), whether or not it equals the pattern's own first word
            let r = obs::eval(calc, "en", line);
            v.evals += 1;
            v.input = format!("{:?} ;; {}", c.ops, line);
            let wants: Vec<f64> = models.iter().map(|m| rewrite_value(&m.rules, line)).collect();
            let ok = matches!(r.single(), Some(Slot::Ok { val: Val::Number(x, Base::Dec), .. }) if wants.contains(x));
            v.expected = format!("{} -> Number({:?})", line, wants);
            v.observed = format!("{}| {} -> {}", trace, line, r.brief());
            if !ok {
                if let Run::Panic(p) = &r {
                    v.site = Some(p.site.clone());
                }
                v.violation = Some(format!("probe {:?}: a run of tokens of the line matches a surviving rule, but the line does not evaluate to the token the rule returns", line));
            }
            return v;
        }
        // probes after the last operation
        let observed = if c.full_probe { probe_full(calc) } else { probe(calc) };
        v.evals += observed.len() as u64;
        v.observed = format!("{}| {}", trace, observed.iter().map(|(p, r)| format!("{} -> {}", p, r.brief())).collect::<Vec<_>>().join(" ;; "));
        for (p, r) in observed.iter() {
            if let Run::Panic(pi) = r {
                v.violation = Some(format!("probe {:?} panicked: {}", p, pi.message));
                v.site = Some(pi.site.clone());
                return v;
            }
        }
        let obs_key: Vec<String> = observed.iter().map(|(p, r)| format!("{} -> {:?}", p, r)).collect();
        // (1) behaves like a fresh calculator with only the survivors (any admissible survivor set)
        let mut matched: Option<Model> = None;
        let mut first_diff = String::new();
        for m in models.iter() {
            let key = format!("fresh{}|{:?}", if c.full_probe { "-full" } else { "" }, m);
            let cached = match ctx.memo.get(&key) {
                Some(j) => Some(j.clone()),
                None => crate::runner::shared_get(&key),
            };
            let reference: Vec<String> = match cached {
                Some(j) => {
                    ctx.memo.entry(key).or_insert_with(|| j.clone());
                    j.split('\u{1}').map(|s| s.to_string()).collect()
                }
                None => {
                    let fresh = m.build(ctx);
                    let r: Vec<String> = (if c.full_probe { probe_full(&fresh) } else { probe(&fresh) }).iter().map(|(p, r)| format!("{} -> {:?}", p, r)).collect();
                    v.evals += r.len() as u64;
                    ctx.memo.insert(key.clone(), r.join("\u{1}"));
                    crate::runner::shared_put(key, r.join("\u{1}"));
                    r
                }
            };
            if reference == obs_key {
                matched = Some(m.clone());
                break;
            } else if first_diff.is_empty() {
                for (a, b) in reference.iter().zip(obs_key.iter()) {
                    if a != b {
                        first_diff = format!("fresh calculator with survivors {:?}: {}  /  history calculator: {}", m.rules, a, b);
                        break;
                    }
                }
            }
        }
        let m = match matched {
            Some(m) => m,
            None => {
                v.expected = first_diff;
                v.violation = Some("after the history the calculator does not behave like a fresh calculator on which only the surviving rules / unit items were registered in order".into());
                return v;
            }
        };
        // (2) effect of the survivors against the model: the first surviving rule (in order) that
        //     matches and does not decline determines the line
        let want_num = |line: &str, lang: &str| -> Option<f64> {
            let lower = line.to_lowercase();
            let (word, n) = lower.split_once(' ')?;
            let n: f64 = n.parse().ok()?;
            for (l, id) in m.rules.iter() {
                if l != lang {
                    continue;
                }
                let hit = match (*id, word) {
                    ('A', "foo") => {
                        if n == 7.0 {
                            None
                        } else {
                            Some(n + 100.0)
                        }
                    }
                    ('B', "foo") | ('B', "bar") => Some(n + 200.0),
                    ('Q', "baz") => Some(n + 300.0),
                    _ => None,
                };
                if hit.is_some() {
                    return hit;
                }
            }
            None
        };
        for (p, r) in observed.iter() {
            let (lang, line) = p.split_once('|').unwrap();
            if lang == "en" && line.starts_with("dozen") && m.rules.iter().any(|(l, id)| l == "en" && *id == 'D') {
                let want: Option<Val> = match line {
                    "dozen" => Some(Val::Number(12.0, Base::Dec)),
                    "dozen dozen" => Some(Val::Number(24.0, Base::Dec)),
                    "dozen + dozen + 1" => Some(Val::Number(25.0, Base::Dec)),
                    _ => None,
                };
                if let Some(w) = want {
                    match r.single() {
                        Some(Slot::Ok { val, .. }) if obs::val_close(val, &w, 1e-9) => {}
                        _ => {
                            v.expected = format!("{} -> {:?}", p, w);
                            v.violation = Some(format!("probe {:?}: the one-word rule survives but the line does not evaluate as if every 'dozen' were 12", p));
                            return v;
                        }
                    }
                }
            }
            if lang == "en" && (line == "4 times 5" || line == "sum 7 8") && m.rules.iter().any(|(l, id)| l == "en" && *id == 'T') {
                let w = if line == "4 times 5" { 405.0 } else { 708.0 };
                match r.single() {
                    Some(Slot::Ok { val: Val::Number(x, Base::Dec), .. }) if *x == w => {}
                    _ => {
                        v.expected = format!("{} -> Number({})", p, w);
                        v.violation = Some(format!("probe {:?}: a surviving rule whose pattern contains an operator word of the language matches but the line does not evaluate to the token it returns", p));
                        return v;
                    }
                }
            }
            if ["foo 5", "foo 7", "bar 5", "baz 5", "FOO 5", "Bar 5", "BAZ 5"].contains(&line) {
                // coin rule C also matches "<word> <n>"? no: its pattern is NUMBER then TEXT
                if let Some(w) = want_num(line, lang) {
                    match r.single() {
                        Some(Slot::Ok { val: Val::Number(x, Base::Dec), .. }) if *x == w => {}
                        _ => {
                            v.expected = format!("{} -> Number({})", p, w);
                            v.violation = Some(format!("probe {:?}: a surviving rule matches but the line does not evaluate to the token it returns", p));
                            return v;
                        }
                    }
                }
            }
            if lang == "en" && line == "deposit 3 aone" && m.rules.iter().any(|(l, id)| l == "en" && *id == 'F') && m.convert(1.0, 1, 1).is_some() {
                match r.single() {
                    Some(Slot::Ok { val: Val::Number(x, Base::Dec), .. }) if *x == 503.0 => {}
                    _ => {
                        v.expected = "deposit 3 aone -> Number(503)".into();
                        v.violation = Some("probe \"deposit 3 aone\": the rule with a typed unit field survives and the family has the unit, but the line does not evaluate to the token the rule returns (the order in which rule and family were registered does not matter)".into());
                        return v;
                    }
                }
            }
            let coin_want = match line {
                "3 btc" | "3 pcs btc" => Some(3000.0),
                "3 pcs btc + 2 btc" => Some(5000.0),
                _ => None,
            };
            if let (true, Some(want), true) = (lang == "en", coin_want, m.rules.iter().any(|(l, id)| l == "en" && *id == 'C')) {
                match r.single() {
                    Some(Slot::Ok { val: Val::Money(x, c), .. }) if *x == want && c == "USD" => {}
                    _ => {
                        v.expected = format!("{} -> Money({}, USD)", line, want);
                        v.violation = Some(format!("probe {:?}: the coin rule survives but the line does not evaluate to the token it returns (a pattern the rule declines must not keep its later patterns from being tried)", line));
                        return v;
                    }
                }
            }
            // (3) the user family converts along its declared chain
            let chain: Option<(f64, usize, usize)> = match line {
                "2 aone to atwo" => Some((2.0, 1, 2)),
                "20 aone to athree" => Some((20.0, 1, 3)),
                // a result far below one: a conversion is not rounded to some number of decimals
                "0,000000003 aone to athree" => Some((3e-9, 1, 3)),
                "3 athree to aone" => Some((3.0, 3, 1)),
                "1 atwo to aone" => Some((1.0, 2, 1)),
                "2 athree to atwo" => Some((2.0, 3, 2)),
                "n = 20\nn aone to athree" => Some((20.0, 1, 3)),
                _ => None,
            };
            let chain2: Option<(f64, usize, usize)> = match line {
                "24 btwo to bfour" => Some((24.0, 2, 4)),
                "1 bfour to btwo" => Some((1.0, 4, 2)),
                "8 btwo to bthree" => Some((8.0, 2, 3)),
                "2 bthree to btwo" => Some((2.0, 3, 2)),
                "n = 24\nn btwo to bfour" => Some((24.0, 2, 4)),
                _ => None,
            };
            if let (Some((a, from, to)), "en") = (chain2, lang) {
                if let Some(w) = m.convert2(a, from, to) {
                    match r.last() {
                        Some(Slot::Ok { val: Val::Unit(x, g, i), .. }) if obs::close(*x, w, 1e-9) && g == "t2" && *i == to => {}
                        _ => {
                            v.expected = format!("{} -> Unit({}, t2, {})", line, w, to);
                            v.violation = Some(format!("probe {:?}: the user-defined family (indices 2, 3, 4) does not convert along its declared chain", p));
                            return v;
                        }
                    }
                }
            }
            if let (Some((a, from, to)), "en") = (chain, lang) {
                if let Some(w) = m.convert(a, from, to) {
                    match r.last() {
                        Some(Slot::Ok { val: Val::Unit(x, g, i), .. }) if obs::close(*x, w, 1e-9) && g == "t1" && *i == to => {}
                        _ => {
                            v.expected = format!("{} -> Unit({}, t1, {})", line, w, to);
                            v.violation = Some(format!("probe {:?}: the user-defined family does not convert along its declared chain", p));
                            return v;
                        }
                    }
                }
            }
        }
        // (4) a line on which no surviving rule produces a token (no pattern matches, or every
        //     matching rule declines) is evaluated as if no rule were registered: the whole
        //     observation, highlight tokens included, equals that of a calculator without rules
        {
            // the plain reference depends on the unit families of the model: memoise per (t1, t2)
            let plain_key = format!("plain{}|{:?}|{:?}", if c.full_probe { "-full" } else { "" }, m.t1, m.t2);
            let plain: Vec<String> = match ctx.memo.get(&plain_key) {
                Some(j) => j.split('\u{1}').map(|s| s.to_string()).collect(),
                None => {
                    let fresh = Model { rules: Vec::new(), ..m.clone() }.build(ctx);
                    let r: Vec<String> = (if c.full_probe { probe_full(&fresh) } else { probe(&fresh) }).iter().map(|(p, r)| format!("{} -> {:?}", p, r)).collect();
                    v.evals += r.len() as u64;
                    ctx.memo.insert(plain_key, r.join("\u{1}"));
                    r
                }
            };
            for (k, (p, _)) in observed.iter().enumerate() {
                let (lang, line) = p.split_once('|').unwrap();
                let low = line.to_lowercase();
                let may_accept = m.rules.iter().any(|(l, id)| {
                    l == lang
                        && match id {
                            'A' => low.contains("foo 5"),
                            'B' => low.contains("foo") || low.contains("bar"),
                            'C' => low.contains("btc"),
                            'T' => low.contains("times") || low.contains("sum"),
                            'D' => low.contains("dozen"),
                            'F' => low.contains("deposit"),
                            'E' => low.contains("qux"),
                            'G' => low.contains("crate"),
                            _ => low.contains("baz"),
                        }
                });
                if !may_accept && obs_key[k] != plain[k] {
                    v.expected = format!("as without rules: {}", plain[k]);
                    v.violation = Some(format!("probe {:?}: no surviving rule produces a token for this line (none matches or all decline), yet it is not evaluated as if no rule were registered (value, output or highlight tokens differ)", p));
                    return v;
                }
            }
        }
        if let Some((max_en, max_tr)) = c.bfs {
            let en = m.rules.iter().filter(|(l, _)| l == "en").count();
            let tr = m.rules.iter().filter(|(l, _)| l == "tr").count();
            if en <= max_en && tr <= max_tr {
                let mut h = std::collections::hash_map::DefaultHasher::new();
                std::hash::Hash::hash(&obs_key, &mut h);
                v.key = Some(format!("{:?}|{:?}|{:?}|{:016x}", m.rules, m.t1, m.t2, std::hash::Hasher::finish(&h)));
            }
        }
        v
    }

}
