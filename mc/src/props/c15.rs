//! C15 — printed results can be typed back in: formatter and reader agree.

use crate::explore::{Family, Mode, Verdict};
use crate::model::calendar as cal;
use crate::model::duration as dur;
use crate::model::units::UNITS;
use crate::obs::{self, Run, Slot};
use crate::props::c09::month_names;
use crate::runner::{Cfg, Ctx, Prop, Tier};
use crate::spec::spec;
use serde::{Deserialize, Serialize};

pub struct C15;

#[derive(Clone, Debug, Serialize, Deserialize)]
pub struct Case {
    pub kind: String,
    #[serde(default)]
    pub cfg: Cfg,
    pub lang: String,
    /// a canonical line that produces the value
    pub line: String,
}

fn seps(tier: Tier) -> Vec<(&'static str, &'static str)> {
    let _ = tier;
    vec![(",", "."), (".", ","), (".", ""), (",", "")]
}

fn cfg_of(dec: &str, thou: &str, digits: u8) -> Cfg {
    let mut c = Cfg::seps(dec, thou);
    c.num = Some((digits, true, true));
    c.pct = Some((digits, true, true));
    c
}

fn number_grid_for(tier: Tier) -> Vec<f64> {
    let mut v = number_grid();
    if tier == Tier::Thorough {
        // every three-digit fraction below 20: every rounding boundary for up to two digits
        for i in 1..=20_000 {
            v.push(i as f64 / 1000.0);
            v.push(-(i as f64) / 1000.0);
        }
    }
    v
}

fn number_grid() -> Vec<f64> {
    let mut v = vec![0.0, 1.0, 0.5, 2.5, 12.345, 999.995, 1234.5, 1000000.0, 0.001, 123456789.125, 1e15, 0.045, 0.004, 0.005, 0.995, 9.995, 99.5, 999.5, 999.4999, 999999.995, 0.05, 0.15, 1.005, 2.675, 0.1, 0.3, 10.1, 9007199254740992.0];
    let mut n = 0.0;
    for i in 1..=13 {
        n = n * 10.0 + (i % 10) as f64;
        v.push(n);
        v.push(n + 0.25);
    }
    let neg: Vec<f64> = v.iter().filter(|x| **x != 0.0).map(|x| -*x).collect();
    v.extend(neg);
    v
}

fn fx(x: f64) -> String {
    format!("{:?}", x)
}

impl Prop for C15 {
    type Case = Case;
    fn id(&self) -> &'static str {
        "C15"
    }

    fn families(&self, tier: Tier) -> Vec<Family<Case>> {
        let mut f = Vec::new();
        let langs = spec().languages.clone();
        let digits: Vec<u8> = vec![0, 2, 4];
        // numbers and percentages ---------------------------------------------------------
        for (kind, atom) in [("number", "NUMBER"), ("percent", "PERCENT")] {
            let (langs, digits, sp) = (langs.clone(), digits.clone(), seps(tier));
            let grid = number_grid_for(tier);
            f.push(Family::new(
                kind,
                Mode::Full,
                &format!("[{}:x] for x in a {}-value grid (0, +-1, halves, rounding boundaries 0.005 / 0.995 / 999.5 / 999.995 / 999999.995, sub-unit values, integers of 1..13 digits, 2^53, both signs) x separator pairs {:?} x digits {:?} x every language: the printed form typed back in prints the same", atom, number_grid_for(tier).len(), sp, digits),
                move |ch| {
                    let x = *ch.pick(&grid);
                    let (dec, thou) = *ch.pick(&sp);
                    let d = *ch.pick(&digits);
                    let l = ch.pick(&langs).clone();
                    Some(Case { kind: kind.into(), cfg: cfg_of(dec, thou, d), lang: l, line: format!("[{}:{}]", atom, fx(x)) })
                },
            ));
        }
        {
            let langs = langs.clone();
            f.push(Family::new(
                "other-separators",
                Mode::Full,
                "[NUMBER:x] and [PERCENT:x] for x in [12.5, 999, 1234.5, 1000000, -2500.25] under separator pairs the setters accept beyond ',' and '.': (',' '''), ('.' ' '), ('.' '_'), (',' ' '), (';' '.'), ('·' ','), x every language: the printed form typed back in prints the same",
                move |ch| {
                    let (dec, thou) = *ch.pick(&[(",", "'"), (".", " "), (".", "_"), (",", " "), (";", "."), ("·", ",")]);
                    let x = *ch.pick(&[12.5, 999.0, 1234.5, 1000000.0, -2500.25]);
                    let atom = *ch.pick(&["NUMBER", "PERCENT"]);
                    let l = ch.pick(&langs).clone();
                    Some(Case { kind: "other-separators".into(), cfg: cfg_of(dec, thou, 2), lang: l, line: format!("[{}:{}]", atom, fx(x)) })
                },
            ));
        }
        {
            let langs = langs.clone();
            f.push(Family::new(
                "unrounded-extremes",
                Mode::Full,
                "numbers and percentages with rounding switched OFF (set_number_configuration / set_percentage_configuration(d, remove, false), d in [2, 6], both settings of zero-fraction removal) for magnitudes at both ends [1e21, 1e24, 123456789012345680000, 1.25e-7, 1e-7, 0.000001, 0.5, 1234.5]: the printed form typed back in prints the same",
                move |ch| {
                    let x = *ch.pick(&[1e21, 1e24, 123456789012345680000.0, 1.25e-7, 1e-7, 0.000001, 0.5, 1234.5]);
                    let d = *ch.pick(&[2u8, 6]);
                    let remove = ch.flag();
                    let atom = *ch.pick(&["NUMBER", "PERCENT"]);
                    let l = ch.pick(&langs).clone();
                    let mut cfg = Cfg::default();
                    cfg.num = Some((d, remove, false));
                    cfg.pct = Some((d, remove, false));
                    Some(Case { kind: "unrounded-extremes".into(), cfg, lang: l, line: format!("[{}:{}]", atom, fx(x)) })
                },
            ));
        }
        // money ------------------------------------------------------------------------------
        {
            // currencies that have a configured symbol or alias
            let mut codes: Vec<String> = spec().currency_alias.values().filter(|c| spec().rates.contains_key(*c)).cloned().collect();
            codes.sort();
            codes.dedup();
            let (langs, sp) = (langs.clone(), seps(tier));
            f.push(Family::new(
                "money",
                Mode::Full,
                &format!("amounts [0, 1, 12.5, 1234.5, -3, 1000000, 0.005] in every currency that has a configured symbol or alias {:?} x separator pairs x every language", codes),
                move |ch| {
                    let c = ch.pick(&codes).clone();
                    let a = *ch.pick(&["0", "1", "12.5", "1234.5", "-3", "1000000", "0.005"]);
                    let (dec, thou) = *ch.pick(&sp);
                    let l = ch.pick(&langs).clone();
                    Some(Case { kind: "money".into(), cfg: cfg_of(dec, thou, 2), lang: l, line: format!("{} {}", a.replace('.', dec), c) })
                },
            ));
        }
        // durations --------------------------------------------------------------------------
        {
            let mut mags: Vec<i64> = (1..=tier.pick(1000i64, 4000)).collect();
            for u in dur::UNITS {
                for k in [1i64, 2, 3, 11, 12, 13] {
                    let m = k * u.len();
                    mags.extend([m - 1, m, m + 1]);
                }
            }
            mags.extend([90061, 34300861, 31536000 + 2592000 + 604800 + 86400 + 3600 + 60 + 1]);
            mags.retain(|m| *m > 0);
            mags.sort();
            mags.dedup();
            let langs = langs.clone();
            f.push(Family::new(
                "duration",
                Mode::Full,
                &format!("{} magnitudes (1..={} s, +-1 s around 1, 2, 3, 11, 12, 13 times every unit, mixed) written as 'S seconds' (language's own word) in every language", mags.len(), tier.pick(1000, 4000)),
                move |ch| {
                    let l = ch.pick(&langs).clone();
                    let s = *ch.pick(&mags);
                    let word = dur::spellings(&l, dur::Unit::Second).into_iter().next().unwrap_or_else(|| "seconds".into());
                    Some(Case { kind: "duration".into(), cfg: Cfg::default(), lang: l, line: format!("{} {}", s, word) })
                },
            ));
        }
        {
            let langs = langs.clone();
            f.push(Family::new(
                "negative-duration",
                Mode::Full,
                "durations below zero whose printed form has one or several parts: '-S seconds' for S in [1, 59, 60, 90, 3600, 5400, 86399, 90061, 694861, 34300861] and '10 seconds - S seconds', in every language (the language's own word): whatever the printed form of a negative duration is, typed back in it prints the same",
                move |ch| {
                    let l = ch.pick(&langs).clone();
                    let s = *ch.pick(&[1i64, 59, 60, 90, 3600, 5400, 86399, 90061, 694861, 34300861]);
                    let word = dur::spellings(&l, dur::Unit::Second).into_iter().next().unwrap_or_else(|| "seconds".into());
                    let line = if ch.flag() { format!("-{} {}", s, word) } else { format!("10 {} - {} {}", word, s + 10, word) };
                    Some(Case { kind: "negative-duration".into(), cfg: Cfg::default(), lang: l, line })
                },
            ));
        }
        // times with zones -----------------------------------------------------------------
        {
            let zones: Vec<String> = match tier {
                Tier::Quick => spec().usable_zones().into_iter().map(|(n, _)| n).step_by(2).collect(),
                Tier::Thorough => spec().usable_zones().into_iter().map(|(n, _)| n).collect(),
            };
            let nz = zones.len();
            let time_langs = langs.clone();
            f.push(Family::new(
                "time",
                Mode::Full,
                &format!("times [0:00, 1:05, 11:30, 12:00, 13:45:59, 23:59:59] alone, with each of {} zone names, and with GMT forms [GMT+3, GMT-3:30, GMT+5:45], under default zones UTC and CET, and (bare, with the GMT forms and with every eighth zone name) under the western default zones EST and GMT-3:30; in every configured language (a printed time contains no word of a language)", nz),
                move |ch| {
                    let t = *ch.pick(&["0:00", "1:05", "11:30", "12:00", "13:45:59", "23:59:59"]);
                    let tz = *ch.pick(&[None, Some("CET"), Some("EST"), Some("GMT-3:30")]);
                    let k = ch.choose(zones.len() + 4);
                    // the western default zones are crossed with the bare time and the GMT forms only
                    if matches!(tz, Some("EST") | Some("GMT-3:30")) && k != 0 && k <= zones.len() && k % 8 != 1 {
                        return None;
                    }
                    let line = if k == 0 {
                        t.to_string()
                    } else if k <= zones.len() {
                        format!("{} {}", t, zones[k - 1])
                    } else {
                        format!("{} {}", t, ["GMT+3", "GMT-3:30", "GMT+5:45"][k - zones.len() - 1])
                    };
                    let mut cfg = Cfg::default();
                    cfg.tz = tz.map(|s| s.to_string());
                    // a printed time has no word of a language in it: every configured language reads it
                    let lang = ch.pick(&time_langs).clone();
                    if lang != "en" && k > 4 && k <= zones.len() {
                        return None; // the other languages are crossed with the bare time, a few zone names and the GMT forms
                    }
                    Some(Case { kind: "time".into(), cfg, lang, line })
                },
            ));
        }
        // dates ------------------------------------------------------------------------------
        {
            let langs = langs.clone();
            f.push(Family::new(
                "date",
                Mode::Full,
                "every month x days [1, 15, last] x years [2026 (the clock's year: printed without year), 2021, 1999, 2100, 999, 9999] in every language (written d/m/y) under default zones UTC, EST, GMT-3:30, GMT+14, and dates in years 7, 50, 68, 69, 99, 100 reached by arithmetic ('d/m/2000 - N years', since a typed two-digit year need not mean that year)",
                move |ch| {
                    let l = ch.pick(&langs).clone();
                    let tz = *ch.pick(&[None, Some("EST"), Some("GMT-3:30"), Some("GMT+14")]);
                    let zcfg = Cfg { tz: tz.map(|s| s.to_string()), ..Default::default() };
                    let y = *ch.pick(&[2026i64, 2021, 1999, 2100, 999, 9999, 7, 50, 68, 69, 99, 100]);
                    let m = 1 + ch.choose(12) as i64;
                    let d = *ch.pick(&[1, 15, cal::days_in_month(y, m).min(28)]);
                    let _ = month_names;
                    if y <= 100 {
                        let word = crate::model::duration::spellings(&l, crate::model::duration::Unit::Year).into_iter().next().unwrap_or_else(|| "years".into());
                        return Some(Case { kind: "date".into(), cfg: zcfg, lang: l, line: format!("{}/{}/2000 - {} {}", d, m, 2000 - y, word) });
                    }
                    Some(Case { kind: "date".into(), cfg: zcfg, lang: l, line: format!("{}/{}/{}", d, m, y) })
                },
            ));
        }
        // unit quantities -------------------------------------------------------------------
        {
            let sp = seps(tier);
            f.push(Family::new(
                "unit",
                Mode::Full,
                "all 33 units x amounts [1, 1.5, 1234.5, 0.25, 1000000] x separator pairs",
                move |ch| {
                    let u = ch.pick(UNITS);
                    let a = *ch.pick(&["1", "1.5", "1234.5", "0.25", "1000000"]);
                    let (dec, thou) = *ch.pick(&sp);
                    Some(Case { kind: "unit".into(), cfg: cfg_of(dec, thou, 2), lang: "en".into(), line: format!("{} {}", a.replace('.', dec), u.short) })
                },
            ));
        }
        // based integers -------------------------------------------------------------------
        let based: Vec<u64> = super::c13::ns(tier);
        f.push(Family::new(
            "based",
            Mode::Full,
            "every n of the C13 value set (0..=1100, 2^k-1, 2^k, 2^k+1, and every n whose hex digits contain a word of config.json behind a digit or a hex letter) up to 2^53, printed in hex, octal and binary",
            move |ch| {
                let n = *ch.pick(&based);
                if n > (1u64 << 53) {
                    return None;
                }
                let w = *ch.pick(&["hex", "octal", "binary"]);
                Some(Case { kind: "based".into(), cfg: Cfg::default(), lang: "en".into(), line: format!("{} to {}", n, w) })
            },
        ));
        f
    }

    fn exec(&self, ctx: &mut Ctx, c: &Case) -> Verdict {
        let calc = ctx.calc(&c.cfg);
        let a = obs::eval(calc, &c.lang, &c.line);
        let mut input = String::new();
        if c.cfg != Cfg::default() {
            input.push_str(&format!("[{}]", serde_json::to_string(&c.cfg).unwrap()));
        }
        if c.lang != "en" {
            input.push_str(&format!("[{}]", c.lang));
        }
        input.push_str(&c.line);
        let mut v = Verdict { input, class: "roundtrip-compared", compared: true, observed: a.brief(), evals: 1, ..Default::default() };
        let out1 = match &a {
            Run::Panic(p) => {
                v.violation = Some(format!("panic: {}", p.message));
                v.site = Some(p.site.clone());
                return v;
            }
            _ => match a.single() {
                Some(Slot::Ok { out, .. }) => out.clone(),
                _ => {
                    v.class = "not-evaluable";
                    v.compared = false;
                    return v;
                }
            },
        };
        if out1.is_empty() {
            // e.g. a zero duration prints nothing: nothing to type back in
            v.class = "empty-output";
            v.compared = false;
            return v;
        }
        let b = obs::eval(calc, &c.lang, &out1);
        v.evals += 1;
        v.expected = format!("{:?} typed back in prints {:?}", out1, out1);
        v.observed = format!("{} ;; typed back: {}", v.observed, b.brief());
        match &b {
            Run::Panic(p) => {
                v.violation = Some(format!("panic reading the printed form back: {}", p.message));
                v.site = Some(p.site.clone());
            }
            _ => match b.single() {
                Some(Slot::Ok { out, .. }) if *out == out1 => {}
                Some(Slot::Ok { .. }) => v.violation = Some("the printed form typed back in prints something else".into()),
                _ => v.violation = Some("the printed form is not a valid input".into()),
            },
        }
        v
    }

    fn rule(&self) -> String {
        "cases are all combinations of kind, value, separator pair, digit count and language in the stated grids; each case evaluates a canonical line, feeds the printed form back as a new line under the same configuration and language and requires the same printed form again (purely differential); non-trivial = the canonical line produced a non-empty printed value; distinct = distinct (configuration, language, line)".into()
    }
    fn assumptions(&self) -> Vec<String> {
        vec!["date-times, raw Unix timestamps, the empty output of a zero duration, currencies that have no entry in config.json's currency_alias table (the table of input symbols and alias words: '$', '€', '₺', 'лв', 'tl', 'dollar' ...; a currency outside it prints with a symbol the reader does not map back - 'CAD' prints '$12,50', 'GBP' prints '£12,50') are read as outside the statement's 'currency that has a configured symbol or alias'".into()]
    }
}
