//! C14 — Unix timestamps convert to and from date-times as mutual inverses.

use super::common::{exec_line, judge, run_case, Expect, LineCase};
use crate::explore::{Family, Mode, Verdict};
use crate::model::calendar as cal;
use crate::obs::{Base, Run, Slot, Val};
use crate::props::c09::month_names;
use crate::runner::{Cfg, Ctx, Prop, Tier};
use crate::spec::spec;

pub struct C14;

const CLOCK_YEAR: i64 = 2026;
/// harness clock: 2026-03-15T12:00:00Z
const CLOCK_DAY: (i64, i64, i64) = (2026, 3, 15);

fn cap(s: &str) -> String {
    let mut c = s.chars();
    match c.next() {
        Some(f) => f.to_uppercase().collect::<String>() + c.as_str(),
        None => String::new(),
    }
}

/// English date-time print: "{day} {Mon} {year} HH:MM:SS ZONE", or "{day} {Month} HH:MM:SS ZONE"
/// for the clock's year
fn print_dt(ts: i64, off_min: i32, zone: &str) -> String {
    let ((y, m, d), secs) = cal::civil_from_epoch(ts + off_min as i64 * 60);
    let long = spec().lang("en")["long_months"].as_object().unwrap().iter().find(|(_, n)| n.as_i64() == Some(m)).map(|(k, _)| k.clone()).unwrap();
    let short = spec().lang("en")["short_months"].as_object().unwrap().iter().find(|(_, n)| n.as_i64() == Some(m)).map(|(k, _)| k.clone()).unwrap();
    let hms = format!("{:02}:{:02}:{:02}", secs / 3600, (secs / 60) % 60, secs % 60);
    if y == CLOCK_YEAR {
        format!("{} {} {} {}", d, cap(&long), hms, zone)
    } else {
        format!("{} {} {} {} {}", d, cap(&short), y, hms, zone)
    }
}

fn stamps(tier: Tier) -> Vec<i64> {
    let mut v: Vec<i64> = vec![0, 1, 86_399, 86_400, 2_147_483_647, 2_147_483_648, 4_294_967_296, 951_782_400 /* 2000-02-29 */, 1_709_164_800 /* 2024-02-29 */, 1_773_576_000 /* the clock */];
    for k in 1..=11 {
        v.push(10i64.pow(k));
    }
    let years: Vec<i64> = tier.pick(vec![1969, 1970, 2038], vec![1969, 1970, 1971, 2037, 2038, 2039, CLOCK_YEAR]);
    for y in years {
        for m in 1..=12 {
            v.push(cal::days_from_civil(y, m, 1) * 86400);
            if tier == Tier::Thorough {
                v.push(cal::days_from_civil(y, m, 1) * 86400 - 1);
            }
        }
    }
    if tier == Tier::Thorough {
        // every day of 1970 and 2038 at 00:00:00 and 23:59:59, every hour of a leap day, and
        // the first second of every century year
        for y in [1970i64, 2038] {
            for m in 1..=12 {
                for d in 1..=cal::days_in_month(y, m) {
                    let t = cal::days_from_civil(y, m, d) * 86400;
                    v.push(t);
                    v.push(t + 86_399);
                }
            }
        }
        for h in 0..24 {
            v.push(cal::days_from_civil(2024, 2, 29) * 86400 + h * 3600 + 1799);
        }
        for c in 1..=99 {
            v.push(cal::days_from_civil(c * 100, 1, 1) * 86400);
        }
    }
    v.push(cal::days_from_civil(1, 1, 1) * 86400);
    v.push(cal::days_from_civil(1, 12, 31) * 86400 + 86399);
    v.push(cal::days_from_civil(9999, 1, 1) * 86400);
    v.push(cal::days_from_civil(9999, 12, 31) * 86400 + 86399);
    let mut out = Vec::new();
    for x in v {
        out.push(x);
        // negative ones included, as long as they stay within years 1..9999
        if -x >= cal::days_from_civil(1, 1, 1) * 86400 {
            out.push(-x);
        }
    }
    out.sort();
    out.dedup();
    out
}

fn zones() -> Vec<(Option<&'static str>, String, i32)> {
    let t = |n: &str| *spec().zones.get(n).unwrap_or(&0);
    vec![(None, "UTC".to_string(), 0), (Some("CET"), "CET".to_string(), t("CET")), (Some("EST"), "EST".to_string(), t("EST")), (Some("GMT+5:30"), "GMT+5:30".to_string(), 330)]
}

fn cfg_tz(tz: Option<&str>) -> Cfg {
    Cfg { tz: tz.map(|s| s.to_string()), ..Default::default() }
}

fn dt_val(ts: i64, zone: &str, off: i32) -> Val {
    Val::DateTime { utc: ts, zone: zone.to_string(), off }
}

impl Prop for C14 {
    type Case = LineCase;
    fn id(&self) -> &'static str {
        "C14"
    }

    fn families(&self, tier: Tier) -> Vec<Family<LineCase>> {
        let mut f = Vec::new();
        let ts = stamps(tier);
        {
            let ts = ts.clone();
            f.push(Family::new(
                "to-date",
                Mode::Full,
                &format!("'N to date' / 'N date' for {} timestamps (0, +-1, +-86399, +-86400, 2^31-1, 2^31, 2^32, month starts around 1970 and 2038, leap days, 10^k, first and last second of years 1 and 9999, both signs) under default zones UTC, CET, EST, GMT+5:30: the instant is N, shown in the configured zone, printed fields = N + offset broken down by the calendar model", ts.len()),
                move |ch| {
                    let (tzset, label, off) = ch.pick(&zones()).clone();
                    let n = *ch.pick(&ts);
                    let bare = ch.flag();
                    let text = if bare { format!("{} date", n) } else { format!("{} to date", n) };
                    Some(LineCase::new(text, Expect::ValueOut(dt_val(n, &label, off), print_dt(n, off, &label), 0.0), "to-date").with_cfg(cfg_tz(tzset)))
                },
            ));
        }
        {
            let mut zs: Vec<(String, i32)> = if tier == Tier::Thorough {
                // thorough: every usable zone name of the table
                spec().usable_zones()
            } else {
                ["EST", "CET", "IST", "NPT"].iter().filter_map(|n| spec().zones.get(*n).map(|o| (n.to_string(), *o))).collect()
            };
            zs.extend([("GMT+5:30".to_string(), 330), ("GMT-3:30".to_string(), -210), ("GMT3".to_string(), 180)]);
            let ts = ts.clone();
            f.push(Family::new(
                "to-zone",
                Mode::Full,
                "'N to Z' and 'N Z' for explicit zones [EST, CET, IST, NPT, GMT+5:30, GMT-3:30, GMT3] (thorough: every usable zone name of the table): the instant is N, shown in the requested zone whatever the default zone is",
                move |ch| {

                    let (z, off) = ch.pick(&zs).clone();
                    let n = *ch.pick(&ts);
                    let bare = ch.flag();
                    let (tzset, _, _) = ch.pick(&zones()[..2]).clone();
                    let text = if bare { format!("{} {}", n, z) } else { format!("{} to {}", n, z) };
                    Some(LineCase::new(text, Expect::ValueOut(dt_val(n, &z, off), print_dt(n, off, &z), 0.0), "to-zone").with_cfg(cfg_tz(tzset)))
                },
            ));
        }
        f.push(Family::new(
            "zoned-time-as-unix",
            Mode::Full,
            "'<time> <zone> as unix' for times [0:15, 1:00, 10:30, 18:45, 23:30] x explicit zones [EST, PST, CET, JST, GMT+3, GMT+5:30, GMT-3:30] under default zones UTC, CET, EST, GMT+5:30, directly and through a variable: the seconds to that wall time in that zone on the clock's date (the instant may lie on the neighbouring UTC day)",
            move |ch| {
                let (tzset, _, _) = ch.pick(&zones()).clone();
                let (tt, wall) = *ch.pick(&[("0:15", 900i64), ("1:00", 3600), ("10:30", 37800), ("18:45", 67500), ("23:30", 84600)]);
                let zs: Vec<(&str, i32)> = vec![("EST", *spec().zones.get("EST").unwrap_or(&0)), ("PST", *spec().zones.get("PST").unwrap_or(&0)), ("CET", *spec().zones.get("CET").unwrap_or(&0)), ("JST", *spec().zones.get("JST").unwrap_or(&0)), ("GMT+3", 180), ("GMT+5:30", 330), ("GMT-3:30", -210)];
                let (z, off) = *ch.pick(&zs);
                let want = cal::days_from_civil(CLOCK_DAY.0, CLOCK_DAY.1, CLOCK_DAY.2) * 86400 + wall - off as i64 * 60;
                let text = if ch.flag() { format!("{} {} as unix", tt, z) } else { format!("t = {} {}\nt as unix", tt, z) };
                Some(LineCase::new(text, Expect::ValueOut(Val::Number(want as f64, Base::Raw), want.to_string(), 0.0), "zoned-time-as-unix").with_cfg(cfg_tz(tzset)))
            },
        ));
        {
            let ts: Vec<i64> = vec![0, 86399, -86400, 1_000_000_000, 2_147_483_648, 951_782_400, 253_402_300_799];
            f.push(Family::new(
                "zone-switch",
                Mode::Full,
                "one calculator and one session: 'x = N1 to date' under default zone Z1, then set_timezone(Z2), then 'N2 to date' (shown in Z2, the instant is N2) and 'x as unix' (still N1) for Z1, Z2 over [UTC, CET, EST, GMT+5:30] and 7 timestamps",
                move |ch| {
                    let (z1set, _, _) = ch.pick(&zones()).clone();
                    let (z2set, label2, off2) = ch.pick(&zones()).clone();
                    let z2 = z2set.unwrap_or("UTC");
                    let n1 = *ch.pick(&ts);
                    let n2 = *ch.pick(&ts);
                    if ch.flag() {
                        Some(LineCase::new(format!("x = {} to date\n{} to date", n1, n2), Expect::ValueOut(dt_val(n2, &label2, off2), print_dt(n2, off2, &label2), 0.0), &format!("zone-switch:{}", z2)).with_cfg(cfg_tz(z1set)))
                    } else {
                        Some(LineCase::new(format!("x = {} to date\nx as unix", n1), Expect::ValueOut(Val::Number(n1 as f64, Base::Raw), n1.to_string(), 0.0), &format!("zone-switch:{}", z2)).with_cfg(cfg_tz(z1set)))
                    }
                },
            ));
        }
        {
            // dates as unix
            let mut dates: Vec<(i64, i64, i64)> = Vec::new();
            for y in [1i64, 1900, 1969, 1970, 2000, 2020, 2038, 2039, 2100, 9999, CLOCK_YEAR] {
                for m in tier.pick(vec![1i64, 2, 12], (1..=12).collect()) {
                    dates.push((y, m, 1));
                    dates.push((y, m, cal::days_in_month(y, m)));
                }
            }
            f.push(Family::new(
                "date-as-unix",
                Mode::Full,
                &format!("'<date> as unix' for {} dates (d/m/y and 'd Month y') under default zones UTC, CET, EST, GMT+5:30: seconds from the epoch to midnight UTC of that date whatever the default zone is; printed digit for digit", dates.len()),
                move |ch| {
                    let (tzset, _, _) = ch.pick(&zones()).clone();
                    let d = *ch.pick(&dates);
                    let named = ch.flag();
                    let text = if named { format!("{} {} {} as unix", d.2, month_names("en", d.1)[0], d.0) } else { format!("{}/{}/{} as unix", d.2, d.1, d.0) };
                    let want = cal::days_from_civil(d.0, d.1, d.2) * 86400;
                    Some(LineCase::new(text, Expect::ValueOut(Val::Number(want as f64, Base::Raw), want.to_string(), 0.0), "date-as-unix").with_cfg(cfg_tz(tzset)))
                },
            ));
        }
        f.push(Family::new(
            "time-as-unix",
            Mode::Full,
            "'<time> as unix' (the time today on the harness clock's date, in the default zone) and '<date-time> as unix' through a variable ('x = D at T', 'x as unix'), under default zones UTC, CET, EST, GMT+5:30",
            move |ch| {
                let (tzset, _, off) = ch.pick(&zones()).clone();
                let (tt, wall) = *ch.pick(&[("11:30", 11 * 3600 + 1800i64), ("00:00", 0), ("23:59:59", 86399), ("1:05 pm", 13 * 3600 + 300)]);
                let via_at = ch.flag();
                if !via_at {
                    let want = cal::days_from_civil(CLOCK_DAY.0, CLOCK_DAY.1, CLOCK_DAY.2) * 86400 + wall - off as i64 * 60;
                    Some(LineCase::new(format!("{} as unix", tt), Expect::ValueOut(Val::Number(want as f64, Base::Raw), want.to_string(), 0.0), "time-as-unix").with_cfg(cfg_tz(tzset)))
                } else {
                    let d = *ch.pick(&[(2021i64, 1i64, 1i64), (1969, 12, 31), (2038, 1, 19), (2020, 2, 29)]);
                    // which instant 'D at T' denotes is not part of this property; '<date-time> as unix'
                    // must be the seconds to the instant of the date-time value observed on line 1
                    let _ = (wall, off);
                    let text = format!("x = {}/{}/{} at {}\nx as unix", d.2, d.1, d.0, tt);
                    Some(LineCase::new(text, Expect::Unspecified, "datetime-as-unix").with_cfg(cfg_tz(tzset)))
                }
            },
        ));
        {
            let ts = ts.clone();
            f.push(Family::new(
                "inverse",
                Mode::Full,
                "'x = N to date' then 'x as unix' gives N again, printed digit for digit, for every timestamp and default zone (and through an explicit zone)",
                move |ch| {
                    let (tzset, _, _) = ch.pick(&zones()).clone();
                    let n = *ch.pick(&ts);
                    let explicit = ch.flag();
                    let text = if explicit { format!("x = {} to EST\nx as unix", n) } else { format!("x = {} to date\nx as unix", n) };
                    Some(LineCase::new(text, Expect::ValueOut(Val::Number(n as f64, Base::Raw), n.to_string(), 0.0), "inverse").with_cfg(cfg_tz(tzset)))
                },
            ));
        }
        f
    }

    fn exec(&self, ctx: &mut Ctx, case: &LineCase) -> Verdict {
        if let Some(z2) = case.tag.strip_prefix("zone-switch:") {
            // line 1 on a session under the configured zone, set_timezone(z2) on the SAME calculator,
            // line 2 on the same session; the verdict is about line 2
            let mut lines = case.text.split('\n');
            let (l1, l2) = (lines.next().unwrap_or(""), lines.next().unwrap_or(""));
            let mut calc = ctx.fresh(&case.cfg);
            let mut session = smartcalc::Session::new();
            session.set_language(case.lang.clone());
            let first = crate::obs::eval_session(&calc, &mut session, Some(l1));
            let switched = calc.set_timezone(z2.to_string());
            let second = crate::obs::eval_session(&calc, &mut session, Some(l2));
            let single = LineCase { text: l2.to_string(), ..case.clone() };
            let mut v = judge(&single, &second);
            v.input = format!("{} ;; set_timezone({}) ;; {}", super::common::input_of(&LineCase { text: l1.to_string(), ..case.clone() }), z2, l2);
            v.evals = 2;
            v.observed = format!("{} ;; {:?} ;; {}", first.brief(), switched.is_ok(), second.brief());
            return v;
        }
        if case.tag != "datetime-as-unix" {
            return exec_line(ctx, case);
        }
        let run = run_case(ctx, case);
        let mut v = judge(case, &run);
        if v.violation.is_some() {
            return v;
        }
        v.class = "self-consistent";
        v.compared = true;
        if let Run::Done(o) = &run {
            match (&o.slots[0], &o.slots[1]) {
                (Slot::Ok { val: Val::DateTime { utc, .. }, .. }, Slot::Ok { val: Val::Number(n, Base::Raw), out }) => {
                    v.expected = format!("Number({}, Raw) printed {:?}", utc, utc.to_string());
                    if *n != *utc as f64 {
                        v.violation = Some("'<date-time> as unix' is not the instant of the date-time".into());
                    } else if *out != utc.to_string() {
                        v.violation = Some("wrong printed form".into());
                    }
                }
                _ => v.violation = Some("'D at T' / 'x as unix' did not yield a date-time and a raw number".into()),
            }
        }
        v
    }

    fn rule(&self) -> String {
        "cases are all combinations of timestamp / date / time, default zone, explicit zone and phrase form in the stated sets; non-trivial = instant, zone, printed fields (or the timestamp's digits) predicted by the calendar model and compared; distinct = distinct (default zone, text)".into()
    }
    fn assumptions(&self) -> Vec<String> {
        vec!["zone offsets and English month names are read from config.json; the date-time print layout ('D Mon YYYY HH:MM:SS ZONE', current year: 'D Month HH:MM:SS ZONE') is hand-written".into()]
    }
}
