//! C13 — based integer literals and base conversion round-trip.

use super::common::{input_of, judge, run_case, Expect, LineCase};
use crate::explore::{Family, Mode, Verdict};
use crate::obs::{self, Base, Run, Slot, Val};
use crate::runner::{Ctx, Prop, Tier};
use serde::{Deserialize, Serialize};

pub struct C13;

#[derive(Clone, Debug, Serialize, Deserialize)]
pub enum Case {
    Line(LineCase),
    /// evaluate `text`, expect `Number(n, base)` printed as `out`; then evaluate the printed
    /// text as a new line and expect the same integer again
    RoundTrip { text: String, n: f64, base: Base, out: String },
}

fn digits(n: u64, base: Base, upper: bool) -> String {
    match base {
        Base::Hex => {
            if upper {
                format!("{:X}", n)
            } else {
                format!("{:x}", n)
            }
        }
        Base::Oct => format!("{:o}", n),
        Base::Bin => format!("{:b}", n),
        _ => format!("{}", n),
    }
}

fn prefix(base: Base, upper: bool) -> &'static str {
    match (base, upper) {
        (Base::Hex, false) => "0x",
        (Base::Hex, true) => "0X",
        (Base::Oct, false) => "0o",
        (Base::Oct, true) => "0O",
        (Base::Bin, false) => "0b",
        (Base::Bin, true) => "0B",
        _ => "",
    }
}

/// printed form the statement prescribes: prefix 0x/0o/0b + digits (hex digits upper case is the
/// library's choice; the round trip, not the case, is what the statement fixes — so the
/// expected output is compared case-insensitively)
fn printed(n: u64, base: Base) -> String {
    format!("{}{}", prefix(base, false), digits(n, base, true))
}

pub fn ns(tier: Tier) -> Vec<u64> {
    let mut v: Vec<u64> = Vec::new();
    let top = tier.pick(1_100u64, 70_000u64);
    v.extend(0..=top);
    for k in 1..=62u32 {
        let p = 1u64 << k;
        v.push(p - 1);
        v.push(p);
        v.push(p + 1);
    }
    v.push((1u64 << 63) - 1);
    // every word of config.json (currency codes, aliases, month names, unit names, keywords ...)
    // that happens to be a string of hex digits, alone and with a digit in front of / behind it:
    // '0x1aed' must be the number 6893, not '0x' followed by 1 AED
    for w in hex_words() {
        for t in [w.clone(), format!("1{}", w), format!("2{}", w), format!("{}7", w), format!("10{}", w), format!("a1{}", w), format!("f2{}", w), format!("b9{}5", w), format!("1a1{}", w)] {
            if let Ok(n) = u64::from_str_radix(&t, 16) {
                v.push(n);
            }
        }
    }
    v.sort();
    v.dedup();
    v
}

fn hex_words() -> Vec<String> {
    fn walk(j: &serde_json::Value, out: &mut std::collections::BTreeSet<String>) {
        fn add(s: &str, out: &mut std::collections::BTreeSet<String>) {
            for w in s.split(|c: char| !c.is_alphanumeric()) {
                if w.len() >= 2 && w.len() <= 8 && w.chars().all(|c| matches!(c, 'a'..='f' | 'A'..='F')) {
                    out.insert(w.to_lowercase());
                }
            }
        }
        match j {
            serde_json::Value::String(s) => add(s, out),
            serde_json::Value::Array(a) => a.iter().for_each(|x| walk(x, out)),
            serde_json::Value::Object(o) => {
                for (k, x) in o {
                    add(k, out);
                    walk(x, out);
                }
            }
            _ => {}
        }
    }
    let mut out = std::collections::BTreeSet::new();
    walk(&crate::spec::spec().json, &mut out);
    out.into_iter().collect()
}

/// f64 can represent n exactly?
fn exact(n: u64) -> bool {
    (n as f64) as u128 == n as u128 && n < (1u64 << 63)
}

impl Prop for C13 {
    type Case = Case;
    fn id(&self) -> &'static str {
        "C13"
    }

    fn families(&self, tier: Tier) -> Vec<Family<Case>> {
        let mut f = Vec::new();
        let all = ns(tier);
        {
            let all = all.clone();
            f.push(Family::new(
                "literals",
                Mode::Full,
                &format!("every n in 0..={} and 2^k-1, 2^k, 2^k+1 (k<=62), 2^63-1, and every n whose hex digits contain a word of config.json (currency code, alias, month, unit ...) written in base 16 (lower/upper digits, 0x/0X), 8 (0o/0O) and 2 (0b/0B): the literal denotes n in that base", tier.pick(1_100, 70_000)),
                move |ch| {
                    let n = *ch.pick(&all);
                    let (base, upper_digits, upper_prefix) = *ch.pick(&[
                        (Base::Hex, false, false),
                        (Base::Hex, true, false),
                        (Base::Hex, true, true),
                        (Base::Oct, false, false),
                        (Base::Oct, false, true),
                        (Base::Bin, false, false),
                        (Base::Bin, false, true),
                    ]);
                    if !exact(n) {
                        return None;
                    }
                    let text = format!("{}{}", prefix(base, upper_prefix), digits(n, base, upper_digits));
                    Some(Case::Line(LineCase::new(text, Expect::Value(Val::Number(n as f64, base), 0.0), "literal")))
                },
            ));
        }
        {
            let all = all.clone();
            f.push(Family::new(
                "convert-roundtrip",
                Mode::Full,
                "N (written in base 10, 16, 8 or 2) to|as|in|(none) hex|hexadecimal|octal|binary|decimal: value keeps n, printed form is prefix+digits, and the printed text read back as a new line gives n again",
                move |ch| {
                    let n = *ch.pick(&all);
                    if !exact(n) {
                        return None;
                    }
                    let src = *ch.pick(&[Base::Dec, Base::Hex, Base::Oct, Base::Bin]);
                    let (word, tgt) = *ch.pick(&[("hex", Base::Hex), ("hexadecimal", Base::Hex), ("octal", Base::Oct), ("binary", Base::Bin), ("decimal", Base::Dec)]);
                    let conn = *ch.pick(&["to", ""]);
                    // keep the product small: connectives other than "to" only for small n
                    if conn != "to" && n > 300 && !n.is_power_of_two() {
                        return None;
                    }
                    if word == "hexadecimal" && n > 300 {
                        return None;
                    }
                    let lit = format!("{}{}", prefix(src, false), digits(n, src, true));
                    let text = if conn.is_empty() { format!("{} {}", lit, word) } else { format!("{} {} {}", lit, conn, word) };
                    if tgt == Base::Dec {
                        // decimal output goes through the number formatter (C07): compare the value only
                        return Some(Case::Line(LineCase::new(text, Expect::Value(Val::Number(n as f64, Base::Dec), 0.0), "to-decimal")));
                    }
                    Some(Case::RoundTrip { text, n: n as f64, base: tgt, out: printed(n, tgt) })
                },
            ));
        }
        f.push(Family::new(
            "after-multibyte-text",
            Mode::Full,
            "a based literal behind multi-byte characters on the same line: '<name> = <literal>' then '<name> + 1' and '<name> to binary' for names [ölçü, sayı, ñ, 日本] x literals in base 16 / 8 / 2 x languages en, tr; and '<literal> + 1' behind a multi-byte word ('ş 0x1F + 1' is left to C01/C17): the literal keeps its value",
            move |ch| {
                let name = *ch.pick(&["ölçü", "sayı", "ñ", "日本"]);
                let (lit, n, base) = *ch.pick(&[("0x1F", 31u64, Base::Hex), ("0XFF", 255, Base::Hex), ("0o17", 15, Base::Oct), ("0b101", 5, Base::Bin)]);
                let lang = *ch.pick(&["en", "tr"]);
                match ch.choose(3) {
                    0 => Some(Case::Line(LineCase::new(format!("{} = {}", name, lit), Expect::Value(Val::Number(n as f64, base), 0.0), "after-multibyte").with_lang(lang))),
                    1 => Some(Case::Line(LineCase::new(format!("{} = {}\n{} + 1", name, lit, name), Expect::Unspecified, "after-multibyte").with_lang(lang).with_number(n as f64 + 1.0))),
                    _ => Some(Case::RoundTrip { text: format!("{} = {}\n{} to binary", name, lit, name), n: n as f64, base: Base::Bin, out: printed(n, Base::Bin) }),
                }
            },
        ));
        f.push(Family::new(
            "chained-conversions",
            Mode::Full,
            "two and three conversions on one line: 'N to B1 to B2 [to B3]' for N in [0, 1, 255, 4096] written in base 10 / 16 and every sequence of target bases (value N, printed in the last base, reads back), and 'N to B + M to B' with a fractional M (255 to hex + 10,6 to hex = 0x10A): every conversion on the line is carried out",
            move |ch| {
                let bases = [("hex", Base::Hex), ("octal", Base::Oct), ("binary", Base::Bin), ("decimal", Base::Dec)];
                if ch.flag() {
                    let (nt, n) = *ch.pick(&[("0", 0u64), ("1", 1), ("255", 255), ("0xFF", 255), ("4096", 4096)]);
                    let k = 2 + ch.choose(2);
                    let mut text = nt.to_string();
                    let mut last = Base::Dec;
                    for _ in 0..k {
                        let (w, b) = *ch.pick(&bases);
                        text.push_str(&format!(" to {}", w));
                        last = b;
                    }
                    if last == Base::Dec {
                        return Some(Case::Line(LineCase::new(text, Expect::Value(Val::Number(n as f64, Base::Dec), 0.0), "chained")));
                    }
                    Some(Case::RoundTrip { text, n: n as f64, base: last, out: printed(n, last) })
                } else {
                    let (w, b) = *ch.pick(&bases[..3]);
                    let (at, a) = *ch.pick(&[("255", 255u64), ("1", 1), ("0b11", 3)]);
                    let (mt, m) = *ch.pick(&[("10,6", 11u64), ("7,5", 8), ("2", 2)]);
                    let _ = b;
                    Some(Case::Line(LineCase::new(format!("{} to {} + {} to {}", at, w, mt, w), Expect::Unspecified, "chained-sum").with_number((a + m) as f64)))
                }
            },
        ));
        f.push(Family::new(
            "embedded-prefixes",
            Mode::Full,
            "hex literals whose digits contain what looks like another radix prefix (0b0, 0b1, 0B1 ...) or a leading zero: 0x10B0, 0x10b1, 0xA0B0C, 0x0b1, 0X0B101, 0xb0b1, 0x0, 0x00ff, alone, converted to decimal / binary and in a sum",
            move |ch| {
                let (t, n) = *ch.pick(&[("0x10B0", 0x10B0u64), ("0x10b1", 0x10b1), ("0xA0B0C", 0xA0B0C), ("0x0b1", 0xb1), ("0X0B101", 0xB101), ("0xb0b1", 0xb0b1), ("0x0", 0), ("0x00ff", 0xff)]);
                match ch.choose(4) {
                    0 => Some(Case::Line(LineCase::new(t.to_string(), Expect::Value(Val::Number(n as f64, Base::Hex), 0.0), "embedded"))),
                    1 => Some(Case::Line(LineCase::new(format!("{} to decimal", t), Expect::Value(Val::Number(n as f64, Base::Dec), 0.0), "embedded"))),
                    2 => Some(Case::RoundTrip { text: format!("{} to binary", t), n: n as f64, base: Base::Bin, out: printed(n, Base::Bin) }),
                    _ => Some(Case::Line(LineCase::new(format!("{} + 1", t), Expect::Unspecified, "embedded").with_number(n as f64 + 1.0))),
                }
            },
        ));
        f.push(Family::new(
            "fractional",
            Mode::Full,
            "fractional N (x,4 / x,5 / x,6 for x in 0..=40 and around 2^31), written on the line or held in a variable ('n = x,6' / 'n to hex'), converts as round(N)",
            move |ch| {
                let via_var = ch.flag();
                let xs: Vec<u64> = (0..=40u64).chain([255, 1023, 2147483646, 2147483647, 2147483648, 4294967295].into_iter()).collect();
                let x = *ch.pick(&xs);
                let (ft, fv) = *ch.pick(&[("4", 0.4), ("5", 0.5), ("6", 0.6)]);
                let (word, tgt) = *ch.pick(&[("hex", Base::Hex), ("octal", Base::Oct), ("binary", Base::Bin)]);
                let want = (x as f64 + fv).round() as u64;
                let text = if via_var { format!("n = {},{}\nn to {}", x, ft, word) } else { format!("{},{} to {}", x, ft, word) };
                Some(Case::RoundTrip { text, n: want as f64, base: tgt, out: printed(want, tgt) })
            },
        ));
        f.push(Family::new(
            "arithmetic",
            Mode::Full,
            "based literals (incl. 0xAF / 0xCD / 0XCD, whose digits spell a currency code) as operands of + - * / with each other and with decimals, in 4 spacings ('a op b', 'aopb', 'a opb', 'aop b') and inside parentheses: the value is that of ordinary arithmetic",
            move |ch| {
                let lits: [(&str, f64); 10] = [("0x1F", 31.0), ("0o17", 15.0), ("0b101", 5.0), ("0xff", 255.0), ("12", 12.0), ("0x10", 16.0), ("0xAF", 175.0), ("0xCD", 205.0), ("0XCD", 205.0), ("1", 1.0)];
                let (at, av) = *ch.pick(&lits);
                let (bt, bv) = *ch.pick(&lits);
                let op = *ch.pick(&['+', '-', '*', '/']);
                let spacing = ch.choose(5);
                if !at.starts_with('0') && !bt.starts_with('0') {
                    return None; // two decimals: not this property (and 'd/m' shapes belong to C09)
                }
                let want = match op {
                    '+' => av + bv,
                    '-' => av - bv,
                    '*' => av * bv,
                    _ => crate::model::arith::guarded_div(av, bv),
                };
                let (text, want) = match spacing {
                    0 => (format!("{} {} {}", at, op, bt), want),
                    1 => (format!("{}{}{}", at, op, bt), want),
                    2 => (format!("{} {}{}", at, op, bt), if op == '-' || op == '+' { want } else { want }),
                    3 => (format!("{}{} {}", at, op, bt), want),
                    _ => (format!("({}{}{})*2", at, op, bt), want * 2.0),
                };
                Some(Case::Line(LineCase::new(text, Expect::Unspecified, "arith").with_number(want)))
            },
        ));
        f
    }

    fn exec(&self, ctx: &mut Ctx, case: &Case) -> Verdict {
        match case {
            Case::Line(l) => {
                if let Some(want) = l.number_any_base {
                    // value compared, base of the result not prescribed by the statement
                    let run = run_case(ctx, l);
                    let mut v = Verdict { input: input_of(l), class: "value-compared", compared: true, expected: format!("Number({:?}, any base)", want), observed: run.brief(), evals: 1, ..Default::default() };
                    match &run {
                        Run::Panic(p) => {
                            v.violation = Some(format!("panic: {}", p.message));
                            v.site = Some(p.site.clone());
                        }
                        _ => match run.last() {
                            Some(Slot::Ok { val: Val::Number(x, _), .. }) if obs::close(*x, want, 1e-12) => {}
                            _ => v.violation = Some("wrong value".into()),
                        },
                    }
                    return v;
                }
                super::common::exec_line(ctx, l)
            }
            Case::RoundTrip { text, n, base, out } => {
                let l = LineCase::new(text.clone(), Expect::Unspecified, "roundtrip");
                let run = run_case(ctx, &l);
                let mut v = Verdict { input: text.clone(), class: "roundtrip-compared", compared: true, expected: format!("Number({:?}, {:?}) printed {:?}, read back as {:?}", n, base, out, n), observed: run.brief(), evals: 1, ..Default::default() };
                let printed = match &run {
                    Run::Panic(p) => {
                        v.violation = Some(format!("panic: {}", p.message));
                        v.site = Some(p.site.clone());
                        return v;
                    }
                    _ => match run.last() {
                        Some(Slot::Ok { val: Val::Number(x, b), out: o }) => {
                            if *x != *n || b != base {
                                v.violation = Some("wrong value or base after conversion".into());
                                return v;
                            }
                            o.clone()
                        }
                        _ => {
                            v.violation = Some("conversion did not yield a number".into());
                            return v;
                        }
                    },
                };
                if printed.to_lowercase() != out.to_lowercase() {
                    v.violation = Some("printed form is not prefix + digits of round(N)".into());
                    return v;
                }
                // read the printed text back
                let l2 = LineCase::new(printed.clone(), Expect::Unspecified, "readback");
                let run2 = run_case(ctx, &l2);
                v.evals += 1;
                v.observed = format!("{} ; readback {}", v.observed, run2.brief());
                match &run2 {
                    Run::Panic(p) => {
                        v.violation = Some(format!("panic reading the printed form back: {}", p.message));
                        v.site = Some(p.site.clone());
                    }
                    _ => match run2.single() {
                        Some(Slot::Ok { val: Val::Number(x, _), .. }) if *x == *n => {}
                        _ => v.violation = Some("printed literal does not read back as the same integer".into()),
                    },
                }
                v
            }
        }
    }

    fn rule(&self) -> String {
        "cases are all combinations of integer, source base, digit/prefix case, connective and target word within the stated sets (generator prunes the connective/long-word dimension for large n); non-trivial = value, base and printed digits predicted and compared, and the printed form read back; distinct = distinct input text".into()
    }
}
