//! C06 — money literals, currency conversion and money arithmetic follow the rate table.

use super::common::{exec_line, num, Expect, LineCase};
use crate::explore::{Bfs, Family, Mode, Verdict};
use crate::model::arith::guarded_div;
use crate::obs::{self, Base, Run, Slot, Val};
use crate::runner::{Cfg, Ctx, Prop, Tier};
use crate::spec::spec;
use serde::{Deserialize, Serialize};
use std::collections::BTreeMap;

pub struct C06;

#[derive(Clone, Debug, Serialize, Deserialize)]
pub enum Op {
    /// update_currency(name, rate)
    Update(String, f64),
    /// evaluate the probe matrix and compare with the model's table
    Probe,
}

#[derive(Clone, Debug, Serialize, Deserialize)]
pub enum Case {
    Line(LineCase),
    History(Vec<Op>),
    /// merged breadth-first layer: like History, and the verdict carries the state key
    Reach(Vec<Op>),
}

fn rate(c: &str) -> f64 {
    spec().rates[c]
}

fn money(v: f64, code: &str) -> Val {
    Val::Money(v, code.to_uppercase())
}

const PROBE_CUR: [&str; 4] = ["usd", "try", "eur", "gbp"];

impl Prop for C06 {
    type Case = Case;
    fn id(&self) -> &'static str {
        "C06"
    }

    fn families(&self, tier: Tier) -> Vec<Family<Case>> {
        let sp = spec();
        let rated = sp.rated();
        let mut f = Vec::new();

        // (a) literals -------------------------------------------------------------------
        {
            let rated = rated.clone();
            // alias word / symbol -> code, restricted to rated targets
            let aliases: Vec<(String, String)> = sp.currency_alias.iter().filter(|(_, c)| sp.rates.contains_key(*c)).map(|(a, c)| (a.clone(), c.clone())).collect();
            f.push(Family::new(
                "literals",
                Mode::Full,
                "every rated currency code in 4 spellings (10 usd, 10usd, 10 USD, 10 Usd) and every configured alias/symbol (symbols before and after the amount, with and without blank) x amounts [10, 2.5, 1.000 (grouped), -10] x suffix none/k/M",
                move |ch| {
                    let amounts: [(&str, f64); 4] = [("10", 10.0), ("2,5", 2.5), ("1.000", 1000.0), ("-10", -10.0)];
                    let (atext, aval) = *ch.pick(&amounts);
                    let suffix = *ch.pick(&["", "k", "M"]);
                    let mult = match suffix {
                        "k" => 1e3,
                        "M" => 1e6,
                        _ => 1.0,
                    };
                    let by_alias = ch.flag();
                    let (text, code) = if !by_alias {
                        let code = ch.pick(&rated).clone();
                        let form = ch.choose(4);
                        let t = match form {
                            0 => format!("{}{} {}", atext, suffix, code),
                            1 => {
                                if suffix.is_empty() {
                                    format!("{}{}", atext, code)
                                } else {
                                    format!("{}{}  {}", atext, suffix, code)
                                }
                            }
                            2 => format!("{}{} {}", atext, suffix, code.to_uppercase()),
                            _ => {
                                let mut c = code.to_uppercase();
                                let tail = c.split_off(1).to_lowercase();
                                format!("{}{} {}{}", atext, suffix, c, tail)
                            }
                        };
                        (t, code)
                    } else {
                        let (alias, code) = ch.pick(&aliases).clone();
                        let is_symbol = !alias.chars().all(|c| c.is_alphabetic());
                        let form = ch.choose(3);
                        let t = if is_symbol {
                            match form {
                                0 => format!("{}{}{}", alias, atext, suffix),
                                1 => {
                                    if suffix.is_empty() {
                                        format!("{}{}", atext, alias)
                                    } else {
                                        format!("{}{} {}", atext, suffix, alias)
                                    }
                                }
                                _ => format!("{}{} {}", atext, suffix, alias),
                            }
                        } else {
                            match form {
                                0 => format!("{}{} {}", atext, suffix, alias),
                                1 => format!("{}{} {}", atext, suffix, alias.to_uppercase()),
                                _ => {
                                    if suffix.is_empty() {
                                        format!("{}{}", atext, alias)
                                    } else {
                                        format!("{}{}  {}", atext, suffix, alias)
                                    }
                                }
                            }
                        };
                        (t, code)
                    };
                    Some(Case::Line(LineCase::new(text, Expect::Value(money(aval * mult, &code), 1e-12), "literal")))
                },
            ));
        }

        // (b) conversion -----------------------------------------------------------------
        {
            let rated = rated.clone();
            let amounts: Vec<(&'static str, f64)> = tier.pick(vec![("10", 10.0), ("2,5", 2.5)], vec![("1", 1.0), ("10", 10.0), ("2,5", 2.5), ("1000000", 1e6), ("0", 0.0)]);
            let conns: Vec<&'static str> = tier.pick(vec!["to", ""], vec!["to", "in", "as", "into", ""]);
            f.push(Family::new(
                "convert",
                Mode::Full,
                &format!("all {}x{} ordered pairs of rated currencies x amounts {:?} x connectives {:?}; identity when A = B", rated.len(), rated.len(), amounts, conns),
                move |ch| {
                    let a = ch.pick(&rated).clone();
                    let b = ch.pick(&rated).clone();
                    let (atext, aval) = *ch.pick(&amounts);
                    let conn = *ch.pick(&conns);
                    let text = if conn.is_empty() { format!("{} {} {}", atext, a, b) } else { format!("{} {} {} {}", atext, a, conn, b) };
                    let (want, tol) = if a == b { (aval, 1e-12) } else { (aval * rate(&b) / rate(&a), 1e-9) };
                    Some(Case::Line(LineCase::new(text, Expect::Value(money(want, &b), tol), "convert")))
                },
            ));
        }
        // conversion with the target spelled as alias / upper case, source by symbol
        {
            let aliases: Vec<(String, String)> = sp.currency_alias.iter().filter(|(a, c)| sp.rates.contains_key(*c) && a.chars().all(|c| c.is_ascii_alphabetic())).map(|(a, c)| (a.clone(), c.clone())).collect();
            f.push(Family::new(
                "convert-alias",
                Mode::Full,
                "source by symbol ($, €, ₺) or code, target spelled as every ASCII alias word, in lower and upper case, connectives to/in/none",
                move |ch| {
                    let src: [(&str, &str); 5] = [("$10", "usd"), ("€10", "eur"), ("₺10", "try"), ("10 gbp", "gbp"), ("10 GBP", "gbp")];
                    let (stext, scode) = *ch.pick(&src);
                    let (alias, tcode) = ch.pick(&aliases).clone();
                    let upper = ch.flag();
                    let conn = *ch.pick(&["to", "in", ""]);
                    let target = if upper { alias.to_uppercase() } else { alias.clone() };
                    let text = if conn.is_empty() { format!("{} {}", stext, target) } else { format!("{} {} {}", stext, conn, target) };
                    let want = if scode == tcode { 10.0 } else { 10.0 * rate(&tcode) / rate(scode) };
                    Some(Case::Line(LineCase::new(text, Expect::Value(money(want, &tcode), 1e-9), "convert-alias")))
                },
            ));
        }

        // (c) arithmetic -----------------------------------------------------------------
        {
            let rated = rated.clone();
            let pairs_all = tier == Tier::Thorough;
            f.push(Family::new(
                "arith",
                Mode::Full,
                "M1 + M2, M1 - M2, M1 / M2 for ordered pairs of rated currencies (quick: 8 x 32, thorough: 32 x 32) with amounts (12,5; 3), (0; 3) and (12,5; 0) - a zero amount still has a currency; M * n and M / n for n in [2, 0.5, -1, 0]",
                move |ch| {
                    let kind = ch.choose(5);
                    let lefts: Vec<String> = if pairs_all { rated.clone() } else { ["usd", "try", "eur", "jpy", "gbp", "idr", "bgn", "krw"].iter().map(|s| s.to_string()).collect() };
                    let a = ch.pick(&lefts).clone();
                    let ((xt, x), (yt, y)) = *ch.pick(&[(("12,5", 12.5f64), ("3", 3.0f64)), (("0", 0.0), ("3", 3.0)), (("12,5", 12.5), ("0", 0.0))]);
                    if kind >= 3 && x != 12.5 {
                        return None;
                    }
                    match kind {
                        0 | 1 | 2 => {
                            let b = ch.pick(&rated).clone();
                            let y_in_a = if a == b { y } else { y * rate(&a) / rate(&b) };
                            let (op, want) = match kind {
                                0 => ('+', money(x + y_in_a, &a)),
                                1 => ('-', money(x - y_in_a, &a)),
                                _ => ('/', Val::Number(guarded_div(x, y_in_a), Base::Dec)),
                            };
                            let _ = yt;
                            let text = format!("{} {} {} {} {}", xt, a, op, yt, b);
                            Some(Case::Line(LineCase::new(text, Expect::Value(want, 1e-9), "M1 op M2")))
                        }
                        3 => {
                            let (nt, nv) = *ch.pick(&[("2", 2.0), ("0,5", 0.5), ("-1", -1.0), ("0", 0.0)]);
                            Some(Case::Line(LineCase::new(format!("12,5 {} * {}", a, nt), Expect::Value(money(x * nv, &a), 1e-12), "M * n")))
                        }
                        _ => {
                            let (nt, nv) = *ch.pick(&[("2", 2.0), ("0,5", 0.5), ("-1", -1.0), ("0", 0.0)]);
                            Some(Case::Line(LineCase::new(format!("12,5 {} / {}", a, nt), Expect::Value(money(guarded_div(x, nv), &a), 1e-12), "M / n")))
                        }
                    }
                },
            ));
        }

        // (c2) two money literals on one line, each in its own spelling ----------------------
        f.push(Family::new(
            "arith-spellings",
            Mode::Full,
            "M1 + M2, M1 - M2 and M1 / M2 where each operand is written independently in one of 10 spellings (10 usd, 10 USD, $10, 10 $, 10$, and the same with a k or M suffix: 2k usd, $2k, 2k $, $2M, 2M usd) over the currencies [usd $, eur €, try ₺]: the value of the first literal never depends on how the second is spelled and vice versa",
            move |ch| {
                // '£' is GBP's printed symbol but no input alias: only the configured symbol aliases are spellings
                let curs: [(&str, &str); 3] = [("usd", "$"), ("eur", "€"), ("try", "₺")];
                let spell = |ch: &mut crate::explore::Chooser, n: &str, nv: f64| -> (String, f64, String) {
                    let (code, sym) = *ch.pick(&curs);
                    let form = ch.choose(10);
                    let (t, v) = match form {
                        0 => (format!("{} {}", n, code), nv),
                        1 => (format!("{} {}", n, code.to_uppercase()), nv),
                        2 => (format!("{}{}", sym, n), nv),
                        3 => (format!("{} {}", n, sym), nv),
                        4 => (format!("{}{}", n, sym), nv),
                        5 => (format!("{}k {}", n, code), nv * 1e3),
                        6 => (format!("{}{}k", sym, n), nv * 1e3),
                        7 => (format!("{}k {}", n, sym), nv * 1e3),
                        8 => (format!("{}{}M", sym, n), nv * 1e6),
                        _ => (format!("{}M {}", n, code), nv * 1e6),
                    };
                    (t, v, code.to_string())
                };
                let (ta, x, a) = spell(ch, "2", 2.0);
                let (tb, y, b) = spell(ch, "500", 500.0);
                let y_in_a = if a == b { y } else { y * rate(&a) / rate(&b) };
                let (op, want) = match ch.choose(3) {
                    0 => ('+', money(x + y_in_a, &a)),
                    1 => ('-', money(x - y_in_a, &a)),
                    _ => ('/', Val::Number(guarded_div(x, y_in_a), Base::Dec)),
                };
                Some(Case::Line(LineCase::new(format!("{} {} {}", ta, op, tb), Expect::Value(want, 1e-9), "two spellings")))
            },
        ));

        // (c3) the amount held in a variable; operator words between two money literals -------
        f.push(Family::new(
            "variables-and-operator-words",
            Mode::Full,
            "'x = M / x to B', 'x = M / x in B', 'x = M / x B', 'x = M / y = x / y into B' for M in [10 usd, 250 eur, 2k try, $5] and B in [eur, try, usd, sek]; and 'M1 <word> M2' / 'M1 <word> n' with the operator words of English (minus, exclude, times, multiply, divide, add, sum, append) where M1 is written '2000 usd', '2k usd', '$2k', '3M eur' or holds a label word behind it ('3000 usd salary minus 1200 eur rent')",
            move |ch| {
                if ch.flag() {
                    let (mt, mv, mc) = *ch.pick(&[("10 usd", 10.0, "usd"), ("250 eur", 250.0, "eur"), ("2k try", 2000.0, "try"), ("$5", 5.0, "usd")]);
                    let b = *ch.pick(&["eur", "try", "usd", "sek"]);
                    let want = if mc == b { mv } else { mv * rate(b) / rate(mc) };
                    let text = match ch.choose(4) {
                        0 => format!("x = {}\nx to {}", mt, b),
                        1 => format!("x = {}\nx in {}", mt, b),
                        2 => format!("x = {}\nx {}", mt, b),
                        _ => format!("x = {}\ny = x\ny into {}", mt, b),
                    };
                    Some(Case::Line(LineCase::new(text, Expect::Value(money(want, b), 1e-9), "variable conversion")))
                } else {
                    let (m1, v1, c1) = *ch.pick(&[("2000 usd", 2000.0, "usd"), ("2k usd", 2000.0, "usd"), ("$2k", 2000.0, "usd"), ("3M eur", 3e6, "eur"), ("3000 usd salary", 3000.0, "usd")]);
                    let (word, op) = *ch.pick(&[("minus", '-'), ("exclude", '-'), ("times", '*'), ("multiply", '*'), ("divide", '/'), ("add", '+'), ("sum", '+'), ("append", '+')]);
                    match op {
                        '+' | '-' => {
                            let (m2, v2, c2) = *ch.pick(&[("500 eur", 500.0, "eur"), ("1200 eur rent", 1200.0, "eur"), ("$100", 100.0, "usd")]);
                            let v2a = if c1 == c2 { v2 } else { v2 * rate(c1) / rate(c2) };
                            let want = if op == '+' { v1 + v2a } else { v1 - v2a };
                            Some(Case::Line(LineCase::new(format!("{} {} {}", m1, word, m2), Expect::Value(money(want, c1), 1e-9), "operator word")))
                        }
                        _ => {
                            let (nt, nv) = *ch.pick(&[("2", 2.0), ("4", 4.0)]);
                            let want = if op == '*' { v1 * nv } else { v1 / nv };
                            Some(Case::Line(LineCase::new(format!("{} {} {}", m1, word, nt), Expect::Value(money(want, c1), 1e-9), "operator word")))
                        }
                    }
                }
            },
        ));

        f.push(Family::new(
            "long-conversion-chains",
            Mode::Full,
            "'M in C1 in C2 ... in Cn' for n = 1..=12 conversions over a fixed cycle of rated currencies, M in [10 usd, 2k usd, $5], connectives in / to: the amount in the LAST currency, whatever the number of rewriting passes the line needs",
            move |ch| {
                let cycle = ["eur", "try", "gbp", "sek", "dkk", "nok", "jpy", "chf", "pln", "cad", "aud", "usd"];
                let cycle: Vec<&str> = cycle.iter().copied().filter(|c| spec().rates.contains_key(*c)).collect();
                let n = 1 + ch.choose(12.min(cycle.len()));
                let (mt, mv) = *ch.pick(&[("10 usd", 10.0), ("2k usd", 2000.0), ("$5", 5.0)]);
                let conn = *ch.pick(&["in", "to"]);
                let mut text = mt.to_string();
                for c in cycle.iter().take(n) {
                    text.push_str(&format!(" {} {}", conn, c));
                }
                let last = cycle[n - 1];
                let want = if last == "usd" { mv } else { mv * rate(last) / rate("usd") };
                Some(Case::Line(LineCase::new(text, Expect::Value(money(want, last), 1e-9), "long chain")))
            },
        ));

        // (d) rate histories -------------------------------------------------------------
        {
            let depth = tier.pick(2, 3);
            f.push(Family::new(
                "rate-histories",
                Mode::Full,
                &format!("every sequence of 1..={} update_currency calls over names [usd, TRY, eur, euro (alias), $ (symbol), aed (no rate yet), xyz (unknown)] x rates [2, 0.5]; the probe matrix (4x4 conversions over usd/try/eur/gbp, two sums, aed<->usd) is compared with the model after every call, each history on its own fresh calculator", depth),
                move |ch| {
                    let names = ["usd", "TRY", "eur", "euro", "$", "aed", "xyz"];
                    let n = 1 + ch.choose(depth);
                    let mut ops = vec![Op::Probe];
                    for _ in 0..n {
                        let name = *ch.pick(&names);
                        let r = *ch.pick(&[2.0, 0.5]);
                        ops.push(Op::Update(name.to_string(), r));
                        ops.push(Op::Probe);
                    }
                    Some(Case::History(ops))
                },
            ));
        }
        f
    }

    fn exec(&self, ctx: &mut Ctx, case: &Case) -> Verdict {
        match case {
            Case::Line(l) => exec_line(ctx, l),
            Case::History(ops) => exec_history(ctx, ops, false),
            Case::Reach(ops) => exec_history(ctx, ops, true),
        }
    }

    fn bfs_layers(&self, tier: Tier) -> Vec<Bfs<Case>> {
        let names: Vec<&'static str> = tier.pick(vec!["usd", "TRY", "eur", "euro", "$", "aed", "xyz"], vec!["usd", "TRY", "eur", "euro", "$", "aed", "xyz", "GBP"]);
        let rates: Vec<f64> = tier.pick(vec![2.0, 0.5], vec![2.0, 0.5, 3.0]);
        let mut ops: Vec<Op> = Vec::new();
        for n in names.iter() {
            for r in rates.iter() {
                ops.push(Op::Update(n.to_string(), *r));
            }
        }
        let n = ops.len();
        vec![Bfs::new(
            "reachable-rate-tables",
            &format!("explicit-state search over update_currency(name, rate) for names {:?} x rates {:?} from the fresh calculator; a state is the model's rate table (usd, try, eur, gbp, aed) together with the fingerprint of the probe matrix; every edge replays the shortest history to its source state on a fresh calculator, applies the update and compares the whole probe matrix (4x4 conversions, two sums, aed<->usd) with the model; no state constraint (the table space is finite)", names, rates),
            n,
            tier.pick(12, 24),
            move |h| {
                let mut seq = vec![Op::Probe];
                for i in h {
                    seq.push(ops[*i].clone());
                    seq.push(Op::Probe);
                }
                Case::Reach(seq)
            },
        )]
    }

    fn rule(&self) -> String {
        "literal/conversion/arithmetic cases are all combinations of the stated grids; a rate history is one sequence of update_currency calls with the whole probe matrix re-evaluated after every call; non-trivial = the rate-table model predicted kind, currency and amount and they were compared; distinct = distinct input text / distinct history".into()
    }
    fn assumptions(&self) -> Vec<String> {
        vec!["rate table, currency records and aliases are read from /repo/src/json/config.json (they are the specification for this property)".into()]
    }
}

fn resolve(name: &str) -> Option<String> {
    let sp = spec();
    let l = name.to_lowercase();
    if let Some(c) = sp.currency_alias.get(&l) {
        return Some(c.clone());
    }
    if sp.currencies.contains_key(&l) {
        return Some(l);
    }
    None
}

fn exec_history(ctx: &mut Ctx, ops: &[Op], want_key: bool) -> Verdict {
    let mut calc = ctx.fresh(&Cfg::default());
    let mut table: BTreeMap<String, f64> = spec().rates.clone();
    let mut v = Verdict { input: format!("{:?}", ops), class: "history-compared", compared: true, ..Default::default() };
    let mut trace = String::new();
    let mut last_probe = String::new();
    for (step, op) in ops.iter().enumerate() {
        match op {
            Op::Update(name, r) => {
                let want = resolve(name);
                let got = match crate::seam::guarded(|| calc.update_currency(name, *r)) {
                    Ok(b) => b,
                    Err(p) => {
                        v.violation = Some(format!("panic in update_currency: {}", p.message));
                        v.site = Some(p.site);
                        v.observed = trace;
                        return v;
                    }
                };
                trace.push_str(&format!("update({},{})={} ", name, r, got));
                if got != want.is_some() {
                    v.expected = format!("update_currency({:?}) returns {}", name, want.is_some());
                    v.violation = Some(format!("step {}: update_currency({:?}, {}) returned {}", step, name, r, got));
                    v.observed = trace;
                    return v;
                }
                if let Some(code) = want {
                    table.insert(code, *r);
                }
            }
            Op::Probe => {
                let mut lines: Vec<(String, Option<Val>)> = Vec::new();
                for a in PROBE_CUR.iter() {
                    for b in PROBE_CUR.iter() {
                        let want = if a == b { 10.0 } else { 10.0 * table[*b] / table[*a] };
                        lines.push((format!("10 {} to {}", a, b), Some(Val::Money(want, b.to_uppercase()))));
                    }
                }
                lines.push(("5 usd + 5 eur".into(), Some(Val::Money(5.0 + 5.0 * table["usd"] / table["eur"], "USD".into()))));
                lines.push(("5 try - 1 usd".into(), Some(Val::Money(5.0 - 1.0 * table["try"] / table["usd"], "TRY".into()))));
                match table.get("aed") {
                    Some(r) => {
                        lines.push(("10 usd to aed".into(), Some(Val::Money(10.0 * r / table["usd"], "AED".into()))));
                        lines.push(("10 aed to usd".into(), Some(Val::Money(10.0 * table["usd"] / r, "USD".into()))));
                    }
                    None => {
                        // currencies without a rate: unspecified, only has to return
                        lines.push(("10 usd to aed".into(), None));
                        lines.push(("10 aed to usd".into(), None));
                    }
                }
                last_probe.clear();
                for (text, want) in lines {
                    let run = obs::eval(&calc, "en", &text);
                    v.evals += 1;
                    last_probe.push_str(&format!("{:?};", run));
                    let ok = match (&run, &want) {
                        (Run::Panic(p), _) => {
                            v.site = Some(p.site.clone());
                            false
                        }
                        (Run::Done(_), None) => true,
                        (Run::Done(_), Some(w)) => matches!(run.single(), Some(Slot::Ok { val, .. }) if obs::val_close(val, w, 1e-9)),
                    };
                    if !ok {
                        v.expected = format!("{:?}", want);
                        v.violation = Some(format!("step {}: probe {:?} disagrees with the rate-table model after {}", step, text, trace));
                        v.observed = format!("{}{}", trace, run.brief());
                        return v;
                    }
                }
                trace.push_str("probe:ok ");
            }
        }
    }
    v.observed = trace;
    if want_key {
        let mut h = std::collections::hash_map::DefaultHasher::new();
        std::hash::Hash::hash(&last_probe, &mut h);
        let t: Vec<String> = ["usd", "try", "eur", "gbp", "aed"].iter().map(|c| format!("{}={:?}", c, table.get(*c))).collect();
        v.key = Some(format!("{}|{:016x}", t.join(","), std::hash::Hasher::finish(&h)));
    }
    v
}
