pub mod common;

pub mod c01;
pub mod c02;
pub mod c03;
pub mod c04;
pub mod seqs;
pub mod c05;
pub mod c06;
pub mod c07;
pub mod c08;
pub mod c09;
pub mod c10;
pub mod c11;
pub mod c12;
pub mod c13;
pub mod c14;
pub mod c15;
pub mod c16;
pub mod c17;
pub mod c18;
pub mod c19;

use crate::runner::{replay_prop, run_prop, Tier};

macro_rules! dispatch {
    ($id:expr, $f:ident, $($arg:expr),*) => {
        match $id {
            "C01" => $f(&c01::C01, $($arg),*),
            "C02" => $f(&c02::C02, $($arg),*),
            "C15" => $f(&c15::C15, $($arg),*),
            "C16" => $f(&c16::C16, $($arg),*),
            "C17" => $f(&c17::C17, $($arg),*),
            "C18" => $f(&c18::C18, $($arg),*),
            "C19" => $f(&c19::C19, $($arg),*),
            "C03" => $f(&c03::C03, $($arg),*),
            "C04" => $f(&c04::C04, $($arg),*),
            "C05" => $f(&c05::C05, $($arg),*),
            "C06" => $f(&c06::C06, $($arg),*),
            "C10" => $f(&c10::C10, $($arg),*),
            "C07" => $f(&c07::C07, $($arg),*),
            "C11" => $f(&c11::C11, $($arg),*),
            "C12" => $f(&c12::C12, $($arg),*),
            "C13" => $f(&c13::C13, $($arg),*),
            "C14" => $f(&c14::C14, $($arg),*),
            "C08" => $f(&c08::C08, $($arg),*),
            "C09" => $f(&c09::C09, $($arg),*),
            _ => {
                eprintln!("MACHINERY: unknown property {}", $id);
                2
            }
        }
    };
}

pub fn run(id: &str, tier: Tier, seed: u64) -> i32 {
    dispatch!(id, run_prop, tier, seed)
}

pub fn replay(id: &str, path: &str) -> i32 {
    dispatch!(id, replay_prop, path)
}
