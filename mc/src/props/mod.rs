pub mod c02;

use crate::runner::{replay_prop, run_prop, Tier};

pub fn run(id: &str, tier: Tier, seed: u64) -> i32 {
    match id {
        "C02" => run_prop(&c02::C02, tier, seed),
        _ => {
            eprintln!("MACHINERY: unknown property {}", id);
            2
        }
    }
}

pub fn replay(id: &str, path: &str) -> i32 {
    match id {
        "C02" => replay_prop(&c02::C02, path),
        _ => {
            eprintln!("MACHINERY: unknown property {}", id);
            2
        }
    }
}
