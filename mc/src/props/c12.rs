//! C12 — unit conversion matches the unit definitions; linear, invertible, transitive.

use super::common::{input_of, run_case, Expect, LineCase};
use crate::explore::{Family, Mode, Verdict};
use crate::lit::{self, Conv};
use crate::model::arith::guarded_div;
use crate::model::units::{self, Unit, UNITS};
use crate::obs::{Base, Run, Slot, Val};
use crate::runner::{Cfg, Ctx, Prop, Tier};
use serde::{Deserialize, Serialize};

pub struct C12;

#[derive(Clone, Debug, Serialize, Deserialize)]
pub enum Case {
    Line(LineCase),
    /// a cross-kind conversion: the result must not be a quantity of the target's family
    CrossKind { text: String, target_group: String },
}

fn unit_val(x: f64, u: &Unit) -> Val {
    Val::Unit(x, u.group.to_string(), u.index)
}

fn same_kind_pairs() -> Vec<(usize, usize)> {
    let mut v = Vec::new();
    for (i, a) in UNITS.iter().enumerate() {
        for (j, b) in UNITS.iter().enumerate() {
            if a.kind == b.kind {
                v.push((i, j));
            }
        }
    }
    v
}

fn convs(tier: Tier) -> Vec<Conv> {
    tier.pick(vec![Conv::new(",", "."), Conv::new(".", ",")], vec![Conv::new(",", "."), Conv::new(".", ","), Conv::new(".", ""), Conv::new(",", "")])
}

fn cfg_of(c: &Conv) -> Cfg {
    Cfg::seps(&c.dec, &c.thou)
}

impl Prop for C12 {
    type Case = Case;
    fn id(&self) -> &'static str {
        "C12"
    }

    fn families(&self, tier: Tier) -> Vec<Family<Case>> {
        let mut f = Vec::new();
        let pairs = same_kind_pairs();
        let amounts: Vec<&'static str> = tier.pick(vec!["1", "2.5", "0"], vec!["1", "2.5", "1000", "0.001", "123456", "0", "7", "0.5", "999.995", "1000000.75", "12.5", "0.000001"]);
        {
            let (pairs, amounts, convs) = (pairs.clone(), amounts.clone(), convs(tier));
            f.push(Family::new(
                "pairs",
                Mode::Full,
                &format!("all {} ordered same-kind pairs of the 33 units (within and across metric/imperial) x amounts {:?} x {} separator configurations, connective 'to', canonical short names", pairs.len(), amounts, convs.len()),
                move |ch| {
                    let (i, j) = *ch.pick(&pairs);
                    let a = *ch.pick(&amounts);
                    let conv = ch.pick(&convs).clone();
                    let (ua, ub) = (&UNITS[i], &UNITS[j]);
                    let want = lit::value(a) * ua.factor / ub.factor;
                    let text = format!("{} {} to {}", lit::render(a, &conv, false), ua.short, ub.short);
                    Some(Case::Line(LineCase::new(text, Expect::Value(unit_val(want, ub), 1e-9), "pair").with_cfg(cfg_of(&conv))))
                },
            ));
        }
        {
            // in-line chains 'x A to B to C [to D]': every same-kind triple (quick: weight and memory;
            // thorough: all kinds, plus all quadruples of memory)
            let mut triples: Vec<Vec<usize>> = Vec::new();
            for (i, a) in UNITS.iter().enumerate() {
                for (j, b) in UNITS.iter().enumerate() {
                    for (k, c) in UNITS.iter().enumerate() {
                        if a.kind == b.kind && b.kind == c.kind && (tier == Tier::Thorough || a.kind != units::Kind::Length) {
                            triples.push(vec![i, j, k]);
                            if tier == Tier::Thorough && a.kind == units::Kind::Memory {
                                for (l, d) in UNITS.iter().enumerate() {
                                    if d.kind == a.kind {
                                        triples.push(vec![i, j, k, l]);
                                    }
                                }
                            }
                        }
                    }
                }
            }
            let nt = triples.len();
            f.push(Family::new(
                "inline-chains",
                Mode::Full,
                &format!("'2,5 A to B to C' (and 'to D') written on one line for {} same-kind unit sequences: equals the direct conversion A to the last unit (transitivity without a variable)", nt),
                move |ch| {
                    let t = ch.pick(&triples).clone();
                    let mut text = format!("2,5 {}", UNITS[t[0]].short);
                    for u in &t[1..] {
                        text.push_str(&format!(" to {}", UNITS[*u].short));
                    }
                    let last = &UNITS[*t.last().unwrap()];
                    let want = 2.5 * UNITS[t[0]].factor / last.factor;
                    Some(Case::Line(LineCase::new(text, Expect::Value(unit_val(want, last), 1e-9), "inline-chain")))
                },
            ));
        }
        if tier == Tier::Thorough {
            let pairs = pairs.clone();
            f.push(Family::new(
                "pairs-all-spellings",
                Mode::Full,
                "thorough only: every ordered same-kind pair x every configured source spelling x every configured target name x amounts [3, 0.75] x connectives to / as / into",
                move |ch| {
                    let (i, j) = *ch.pick(&pairs);
                    let (src, _) = units::spellings(&UNITS[i]);
                    let (_, tgt) = units::spellings(&UNITS[j]);
                    let s = ch.pick(&src).clone();
                    let t = ch.pick(&tgt).clone();
                    let (at, a) = *ch.pick(&[("3", 3.0), ("0,75", 0.75)]);
                    let conn = *ch.pick(&["to", "as", "into"]);
                    let want = a * UNITS[i].factor / UNITS[j].factor;
                    Some(Case::Line(LineCase::new(format!("{} {} {} {}", at, s, conn, t), Expect::Value(unit_val(want, &UNITS[j]), 1e-9), "spelling-pair")))
                },
            ));
        }
        {
            let pairs = pairs.clone();
            f.push(Family::new(
                "side-by-side",
                Mode::Full,
                "two and three quantities written side by side without an operator, '500 A 1 B' and '2 A 3 A 4 B', for every ordered same-kind pair (also the smaller unit first, also the same unit twice), and 'x = 500 A 1 B / x to A': they are added, in the first quantity's unit",
                move |ch| {
                    let (i, j) = *ch.pick(&pairs);
                    let (ua, ub) = (&UNITS[i], &UNITS[j]);
                    match ch.choose(3) {
                        0 => {
                            let want = 500.0 + 1.0 * ub.factor / ua.factor;
                            Some(Case::Line(LineCase::new(format!("500 {} 1 {}", ua.short, ub.short), Expect::Value(unit_val(want, ua), 1e-9), "side-by-side")))
                        }
                        1 => {
                            let want = 2.0 + 3.0 + 4.0 * ub.factor / ua.factor;
                            Some(Case::Line(LineCase::new(format!("2 {} 3 {} 4 {}", ua.short, ua.short, ub.short), Expect::Value(unit_val(want, ua), 1e-9), "side-by-side-3")))
                        }
                        _ => {
                            let want = 500.0 + 1.0 * ub.factor / ua.factor;
                            Some(Case::Line(LineCase::new(format!("x = 500 {} 1 {}\nx to {}", ua.short, ub.short, ua.short), Expect::Value(unit_val(want, ua), 1e-9), "side-by-side-var")))
                        }
                    }
                },
            ));
        }
        {
            let pairs = pairs.clone();
            f.push(Family::new(
                "variable-amounts",
                Mode::Full,
                "the amount held in a variable that is bound to a plain number: 'n = X / n A to B' for every same-kind pair (X in 1, 2,5), and 'a = 3 / b = 12 / a A + b B', 'a A / b B' for every same-kind pair: the quantity is the variable's value in that unit",
                move |ch| {
                    let (i, j) = *ch.pick(&pairs);
                    let (ua, ub) = (&UNITS[i], &UNITS[j]);
                    match ch.choose(3) {
                        0 => {
                            let (xt, x) = *ch.pick(&[("1", 1.0), ("2,5", 2.5)]);
                            let want = x * ua.factor / ub.factor;
                            Some(Case::Line(LineCase::new(format!("n = {}\nn {} to {}", xt, ua.short, ub.short), Expect::Value(unit_val(want, ub), 1e-9), "var-amount")))
                        }
                        1 => {
                            let want = 3.0 + 12.0 * ub.factor / ua.factor;
                            Some(Case::Line(LineCase::new(format!("a = 3\nb = 12\na {} + b {}", ua.short, ub.short), Expect::Value(unit_val(want, ua), 1e-9), "var-amount-sum")))
                        }
                        _ => {
                            let want = guarded_div(3.0, 12.0 * ub.factor / ua.factor);
                            Some(Case::Line(LineCase::new(format!("a = 3\nb = 12\na {} / b {}", ua.short, ub.short), Expect::Value(Val::Number(want, Base::Dec), 1e-9), "var-amount-ratio")))
                        }
                    }
                },
            ));
        }
        {
            // every configured spelling, each unit to a neighbour and back
            let mut cases: Vec<(usize, String, usize, String)> = Vec::new();
            for (i, u) in UNITS.iter().enumerate() {
                let (src, _) = units::spellings(u);
                // partner: the next unit of the same kind (wrapping)
                let partner = (0..UNITS.len()).map(|k| (i + 1 + k) % UNITS.len()).find(|k| UNITS[*k].kind == u.kind && *k != i).unwrap();
                let (_, ptgt) = units::spellings(&UNITS[partner]);
                for s in src.iter() {
                    for t in ptgt.iter() {
                        cases.push((i, s.clone(), partner, t.clone()));
                    }
                }
            }
            let conns: Vec<&'static str> = tier.pick(vec!["to"], vec!["to", "as", "into", "in"]);
            f.push(Family::new(
                "spellings",
                Mode::Full,
                &format!("every configured source spelling of every unit converted to every configured target name of its neighbouring unit ({} spelling pairs) x connectives {:?}, amount 3 apart from the unit word and amounts 3, 14, 1 written directly onto it ('14st to lb')", cases.len(), conns),
                move |ch| {
                    let (i, s, j, t) = ch.pick(&cases).clone();
                    let conn = *ch.pick(&conns);
                    // "in" is also the inch: "3 cm in in" style lines are left out
                    if conn == "in" && (s == "in" || t == "in") {
                        return None;
                    }
                    // the amount written directly onto the unit word ('14st', '3kg') or apart from it
                    let (amount_text, amount) = *ch.pick(&[("3", 3.0), ("14", 14.0), ("1", 1.0)]);
                    let glued = ch.flag();
                    if !glued && amount != 3.0 {
                        return None;
                    }
                    let want = amount * UNITS[i].factor / UNITS[j].factor;
                    Some(Case::Line(LineCase::new(format!("{}{}{} {} {}", amount_text, if glued { "" } else { " " }, s, conn, t), Expect::Value(unit_val(want, &UNITS[j]), 1e-9), "spelling")))
                },
            ));
        }
        {
            let mut cross: Vec<(usize, usize)> = Vec::new();
            for (i, a) in UNITS.iter().enumerate() {
                for (j, b) in UNITS.iter().enumerate() {
                    if a.kind != b.kind {
                        cross.push((i, j));
                    }
                }
            }
            f.push(Family::new(
                "cross-kind",
                Mode::Full,
                &format!("all {} ordered pairs of units of different kinds: the result is never a quantity of the target's family", cross.len()),
                move |ch| {
                    let (i, j) = *ch.pick(&cross);
                    Some(Case::CrossKind { text: format!("1 {} to {}", UNITS[i].short, UNITS[j].short), target_group: UNITS[j].group.to_string() })
                },
            ));
        }
        {
            let (pairs, convs) = (pairs.clone(), convs(tier));
            f.push(Family::new(
                "round-trip",
                Mode::Full,
                "A -> B -> A through a variable returns the original amount (2.5 and 7) for every same-kind pair, under each separator configuration",
                move |ch| {
                    let (i, j) = *ch.pick(&pairs);
                    if i == j {
                        return None;
                    }
                    let a = *ch.pick(&["2.5", "7"]);
                    let conv = ch.pick(&convs).clone();
                    let text = format!("v = {} {} to {}\nv to {}", lit::render(a, &conv, false), UNITS[i].short, UNITS[j].short, UNITS[i].short);
                    Some(Case::Line(LineCase::new(text, Expect::Value(unit_val(lit::value(a), &UNITS[i]), 1e-9), "round-trip").with_cfg(cfg_of(&conv))))
                },
            ));
        }
        {
            let kinds: Vec<units::Kind> = tier.pick(vec![units::Kind::Weight], vec![units::Kind::Length, units::Kind::Weight, units::Kind::Memory]);
            f.push(Family::new(
                "triples",
                Mode::Full,
                &format!("A -> B -> C (through a variable) equals A -> C for all same-kind triples of kinds {:?}, amount 2.5", kinds),
                move |ch| {
                    let kind = *ch.pick(&kinds);
                    let us: Vec<&Unit> = UNITS.iter().filter(|u| u.kind == kind).collect();
                    let a = *ch.pick(&us);
                    let b = *ch.pick(&us);
                    let c = *ch.pick(&us);
                    let text = format!("v = 2,5 {} to {}\nv to {}", a.short, b.short, c.short);
                    Some(Case::Line(LineCase::new(text, Expect::Value(unit_val(2.5 * a.factor / c.factor, c), 1e-9), "triple")))
                },
            ));
        }
        {
            let pairs = pairs.clone();
            f.push(Family::new(
                "arith",
                Mode::Full,
                "Q1 + Q2, Q1 - Q2 (result in Q1's unit), Q1 / Q2 (plain ratio) for all same-kind pairs; Q * n and Q / n for n in [2, 0.5, 0] keep the unit",
                move |ch| {
                    let (i, j) = *ch.pick(&pairs);
                    let (ua, ub) = (&UNITS[i], &UNITS[j]);
                    let kind = ch.choose(5);
                    let (x, y) = (12.5, 3.0);
                    let y_in_a = y * ub.factor / ua.factor;
                    let (text, want) = match kind {
                        0 => (format!("12,5 {} + 3 {}", ua.short, ub.short), unit_val(x + y_in_a, ua)),
                        1 => (format!("12,5 {} - 3 {}", ua.short, ub.short), unit_val(x - y_in_a, ua)),
                        2 => (format!("12,5 {} / 3 {}", ua.short, ub.short), Val::Number(guarded_div(x, y_in_a), Base::Dec)),
                        3 => {
                            if i != j {
                                return None;
                            }
                            let (nt, nv) = *ch.pick(&[("2", 2.0), ("0,5", 0.5), ("0", 0.0)]);
                            (format!("12,5 {} * {}", ua.short, nt), unit_val(x * nv, ua))
                        }
                        _ => {
                            if i != j {
                                return None;
                            }
                            let (nt, nv) = *ch.pick(&[("2", 2.0), ("0,5", 0.5), ("0", 0.0)]);
                            (format!("12,5 {} / {}", ua.short, nt), unit_val(guarded_div(x, nv), ua))
                        }
                    };
                    Some(Case::Line(LineCase::new(text, Expect::Value(want, 1e-9), "arith")))
                },
            ));
        }
        {
            // every unit with all its source spellings, partner = the neighbouring unit of the same kind
            let mut ops: Vec<(usize, String)> = Vec::new();
            for (i, u) in UNITS.iter().enumerate() {
                let (src, _) = units::spellings(u);
                for s in src {
                    ops.push((i, s));
                }
            }
            let n_ops = ops.len();
            f.push(Family::new(
                "arith-spellings",
                Mode::Full,
                &format!("Q1 + Q2, Q1 - Q2 and Q1 / Q2 where Q1 runs over all {} (unit, source spelling) combinations, written apart ('12,5 Kilometer') or directly onto the word ('12,5km'), and Q2 is the neighbouring unit of the same kind in each of its spellings: the value of one operand never depends on how the other is spelled", n_ops),
                move |ch| {
                    let (i, sa) = ch.pick(&ops).clone();
                    let j = (0..UNITS.len()).map(|k| (i + 1 + k) % UNITS.len()).find(|k| UNITS[*k].kind == UNITS[i].kind && *k != i).unwrap();
                    let (srcb, _) = units::spellings(&UNITS[j]);
                    let sb = ch.pick(&srcb).clone();
                    let glue_a = ch.flag();
                    let (ua, ub) = (&UNITS[i], &UNITS[j]);
                    let (x, y) = (12.5, 3.0);
                    let y_in_a = y * ub.factor / ua.factor;
                    let a = format!("12,5{}{}", if glue_a { "" } else { " " }, sa);
                    let b = format!("3 {}", sb);
                    let (text, want) = match ch.choose(3) {
                        0 => (format!("{} + {}", a, b), unit_val(x + y_in_a, ua)),
                        1 => (format!("{} - {}", a, b), unit_val(x - y_in_a, ua)),
                        _ => (format!("{} / {}", a, b), Val::Number(guarded_div(x, y_in_a), Base::Dec)),
                    };
                    Some(Case::Line(LineCase::new(text, Expect::Value(want, 1e-9), "arith-spellings")))
                },
            ));
        }
        f
    }

    fn exec(&self, ctx: &mut Ctx, case: &Case) -> Verdict {
        match case {
            Case::Line(l) => super::common::exec_line(ctx, l),
            Case::CrossKind { text, target_group } => {
                let l = LineCase::new(text.clone(), Expect::Unspecified, "cross-kind");
                let run = run_case(ctx, &l);
                let mut v = Verdict { input: input_of(&l), class: "rejected-as-required", compared: true, expected: format!("not a quantity of family {}", target_group), observed: run.brief(), evals: 1, ..Default::default() };
                match &run {
                    Run::Panic(p) => {
                        v.violation = Some(format!("panic: {}", p.message));
                        v.site = Some(p.site.clone());
                    }
                    _ => {
                        if let Some(Slot::Ok { val: Val::Unit(_, g, _), .. }) = run.single() {
                            if g == target_group {
                                v.violation = Some("quantity converted into a different kind".into());
                            }
                        }
                    }
                }
                v
            }
        }
    }

    fn rule(&self) -> String {
        "cases are all combinations of unit pairs / triples, amounts, spellings and separator configurations in the stated sets; non-trivial = amount and unit identity predicted from a hand-written factor table (or 'must not convert' for cross-kind pairs) and compared; distinct = distinct (configuration, text)".into()
    }
    fn assumptions(&self) -> Vec<String> {
        vec!["unit factors are hand-written in the harness (mc/src/model/units.rs); only the *spellings* are read from config.json".into()]
    }
}
