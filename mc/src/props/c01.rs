//! C01 — evaluation is total: no panic, no hang, one result slot per input line.

use super::seqs;
use crate::explore::{Chooser, Family, Mode, Verdict};
use crate::obs::{self, Run};
use crate::runner::{Cfg, Ctx, Prop, Tier};
use crate::seam;
use crate::spec::spec;
use serde::{Deserialize, Serialize};

pub struct C01;

#[derive(Clone, Debug, Serialize, Deserialize)]
pub struct Case {
    #[serde(default)]
    pub cfg: Cfg,
    pub lang: String,
    #[serde(default)]
    pub now: Option<i64>,
    pub text: String,
    /// lines use no variables: every slot must equal the line evaluated alone
    #[serde(default)]
    pub independent: bool,
}

fn simple(lang: &str, text: String) -> Case {
    Case { cfg: Cfg::default(), lang: lang.into(), now: None, text, independent: false }
}

/// reference splitter, written independently of the library: LF or CRLF separate lines
pub fn segments(text: &str) -> Vec<String> {
    let mut out = Vec::new();
    let mut cur = String::new();
    let cs: Vec<char> = text.chars().collect();
    let mut i = 0;
    while i < cs.len() {
        if cs[i] == '\r' && i + 1 < cs.len() && cs[i + 1] == '\n' {
            out.push(std::mem::take(&mut cur));
            i += 2;
        } else if cs[i] == '\n' {
            out.push(std::mem::take(&mut cur));
            i += 1;
        } else {
            cur.push(cs[i]);
            i += 1;
        }
    }
    out.push(cur);
    out
}

// ---- rule pattern instantiation --------------------------------------------------------

#[derive(Clone, Debug)]
enum Part {
    Lit(String),
    Field(String, Option<String>),
}

fn parse_pattern(p: &str) -> Vec<Part> {
    let mut parts = Vec::new();
    let mut lit = String::new();
    let mut rest = p;
    while let Some(i) = rest.find('{') {
        lit.push_str(&rest[..i]);
        let j = match rest[i..].find('}') {
            Some(j) => i + j,
            None => break,
        };
        if !lit.is_empty() {
            parts.push(Part::Lit(std::mem::take(&mut lit)));
        }
        let inner: Vec<&str> = rest[i + 1..j].split(':').collect();
        parts.push(Part::Field(inner[0].to_string(), inner.get(2).map(|s| s.to_string())));
        rest = &rest[j + 1..];
    }
    lit.push_str(rest);
    if !lit.is_empty() {
        parts.push(Part::Lit(lit));
    }
    parts
}

fn boundary(ty: &str, extra: &Option<String>, lang: &str) -> Vec<String> {
    let v = |xs: &[&str]| xs.iter().map(|s| s.to_string()).collect::<Vec<_>>();
    match ty {
        "NUMBER" => v(&["5", "0", "1", "-1", "12", "23", "24", "25", "31", "2147483648", "1000000000000000", "100000000000000000000", "0,5", "-100000000000000000000", "-9223372036854775808", "9223372036854775807"]),
        "PERCENT" => v(&["10%", "0%", "-5%", "%7", "150%"]),
        "MONEY" => v(&["10 usd", "$0", "5 aed", "-3 try", "1k eur", "99999999999999999999 jpy"]),
        "DATE" => v(&["15/6/2021", "1/1/1", "31/12/9999", "29/2/2020", "31/1/2021", "15/12/2020", "15/11/2020", "1/3/2021", "today"]),
        "TIME" => v(&["11:30", "0:00", "23:59:59", "11pm", "12:30 am", "23:59:60", "24:00"]),
        "DATE_TIME" => v(&["1/1/2021 at 11:30", "31/12/9999 at 23:59:59", "1/1/2021 at 25", "1/1/2021 at 24", "1/1/2021 at -1"]),
        "DURATION" => {
            if lang == "tr" {
                v(&["1 gün", "0 saniye", "31 gün", "11 ay", "12 ay", "400 yıl", "100000000000000000000 gün", "9999999999 yıl", "9223372036854775807 saniye", "200000000 yıl", "9223372036854775 saniye"])
            } else {
                v(&["1 day", "0 seconds", "31 days", "11 months", "12 months", "400 years", "100000000000000000000 days", "9999999999 years", "9223372036854775807 seconds", "300000000 years", "-5 days", "106751991167301 days", "15250284452472 weeks", "200000000 years", "9223372036854775 seconds", "106751991167 days"])
            }
        }
        "MONTH" => {
            if lang == "tr" {
                v(&["aralık", "şub", "mayıs"])
            } else {
                v(&["december", "feb", "may"])
            }
        }
        "TIMEZONE" => v(&["EST", "GMT+3", "GMT-3:30", "GMT+19", "cet"]),
        "DYNAMIC_TYPE" => v(&["5 km", "1 byte", "0 kg", "1,5 inch"]),
        "TEXT" => match extra {
            Some(w) => vec![w.clone()],
            None => v(&["usd", "foo", "cm", "unix", "hex", "aed", "kg"]),
        },
        "GROUP" => {
            let g = extra.clone().unwrap_or_default();
            let mut words: Vec<String> = spec().lang(lang)["word_group"][&g].as_array().map(|a| a.iter().map(|x| x.as_str().unwrap().to_string()).collect()).unwrap_or_default();
            if words.is_empty() {
                words.push("to".into());
            }
            words
        }
        other => {
            // a type group: union of its members' sets
            let mut out = Vec::new();
            if let Some(members) = spec().json["type_group"][other].as_array() {
                for m in members {
                    out.extend(boundary(m.as_str().unwrap(), extra, lang));
                }
            }
            if out.is_empty() {
                out.push("5".into());
            }
            out
        }
    }
}

/// the date patterns installed by SmartCalc::default() (public default, not in config.json)
fn date_patterns(lang: &str) -> Vec<String> {
    let v = if lang == "en" {
        vec!["{MONTH:month} {NUMBER:day}, {NUMBER:year}", "{MONTH:month} {NUMBER:day} {NUMBER:year}", "{NUMBER:day}/{NUMBER:month}/{NUMBER:year}", "{NUMBER:day} {MONTH:month} {NUMBER:year}", "{NUMBER:day} {MONTH:month}"]
    } else {
        vec!["{NUMBER:day}/{NUMBER:month}/{NUMBER:year}", "{NUMBER:day} {MONTH:month} {NUMBER:year}", "{NUMBER:day} {MONTH:month}"]
    };
    v.into_iter().map(|s| s.to_string()).collect()
}

fn all_patterns() -> Vec<(String, String)> {
    let mut out = Vec::new();
    for l in spec().languages.iter() {
        if let Some(rules) = spec().lang(l)["rules"].as_object() {
            for r in rules.values() {
                for p in r["rules"].as_array().unwrap() {
                    out.push((l.clone(), p.as_str().unwrap().to_string()));
                }
            }
        }
        for p in date_patterns(l) {
            out.push((l.clone(), p));
        }
    }
    out
}

/// one evaluable line per built-in rule pattern of `lang`: every field filled with the first
/// (default) element of its typed boundary set.  Used by C18 to see that registering and deleting
/// user rules leaves every built-in rule in place.
pub fn default_rule_lines(lang: &str) -> Vec<String> {
    let mut out = Vec::new();
    for (l, pat) in all_patterns() {
        if l != lang {
            continue;
        }
        let mut s = String::new();
        for part in parse_pattern(&pat) {
            match part {
                Part::Lit(t) => s.push_str(&t),
                Part::Field(ty, extra) => s.push_str(&boundary(&ty, &extra, lang)[0]),
            }
        }
        if !out.contains(&s) {
            out.push(s);
        }
    }
    out
}

fn instantiate(ch: &mut Chooser, lang: &str, pat: &str) -> String {
    let mut s = String::new();
    for part in parse_pattern(pat) {
        match part {
            Part::Lit(l) => s.push_str(&l),
            Part::Field(ty, extra) => {
                let b = boundary(&ty, &extra, lang);
                let pick: &String = ch.pick_dev(&b[..]);
                s.push_str(pick);
            }
        }
    }
    s
}

// ---- multi-line pool ---------------------------------------------------------------------

const LINE_POOL: [&str; 12] = ["", "   ", "# a comment", "1 + 2", "10 usd to try", "1 +", "(", "=", "1 usd + 1 km", "15/11/2021 + 1 month", "[NUMBER:abc]", "0xFFFFFFFFFFFFFFFFFF + 1"];
const VAR_POOL: [&str; 16] = ["a = 5", "a + 1", "a b = 1 +", "b = a * 2", "a = a + 1", "a = a", "a b = a b * 2", "b = (b)", "{NUMBER:x} = 5", "{PERCENT:p} = 10%", "{TIME:t} = 11:30", "{TEXT:w} = 5", "7", "10%", "11:30", "[NUMBER:5] = 5"];

impl Prop for C01 {
    type Case = Case;
    fn id(&self) -> &'static str {
        "C01"
    }

    fn families(&self, tier: Tier) -> Vec<Family<Case>> {
        let mut f: Vec<Family<Case>> = Vec::new();
        // (a) atom sequences, shared with C17
        for fam in seqs::families(tier) {
            let gen = fam.gen;
            f.push(Family { name: fam.name, mode: fam.mode, bounds: fam.bounds, gen: Box::new(move |ch| gen(ch).map(|s| Case { cfg: Cfg::default(), lang: s.lang, now: s.now, text: s.text, independent: false })) });
        }
        // (b) rule patterns
        {
            let pats = all_patterns();
            let np = pats.len();
            let k = tier.pick(2, 3);
            f.push(Family::new(
                "rule-patterns",
                Mode::Deviations(k),
                &format!("every rule pattern of every language in config.json plus the default date patterns ({} patterns), each field replaced by the elements of a typed boundary set (NUMBER incl. 0, 24, 25, 31, 2^31, 10^15, 10^20; DATE incl. 1/1/1, 31/12/9999, 29/2/2020, 31/1/2021, 15/11/2020; DURATION incl. 11/12 months, 10^20 days, i64::MAX seconds; ...), at most {} fields away from their default value", np, k),
                move |ch| {
                    let (l, p) = ch.pick(&pats).clone();
                    let text = instantiate(ch, &l, &p);
                    Some(simple(&l, text))
                },
            ));
        }
        // (c) date +- duration grid (totality only; values belong to C09)
        {
            let mut dates: Vec<(i64, i64, i64)> = Vec::new();
            for y in [2020i64, 2021] {
                for m in 1..=12 {
                    let dim = crate::model::calendar::days_in_month(y, m);
                    let days: Vec<i64> = match tier {
                        Tier::Quick => vec![1, 15, dim],
                        Tier::Thorough => (1..=dim).collect(),
                    };
                    for d in days {
                        dates.push((y, m, d));
                    }
                }
            }
            let nd = dates.len();
            f.push(Family::new(
                "binary-boundaries",
                Mode::Full,
                "every ordered pair of boundary values of every kind (the typed boundary sets of the rule-pattern family: numbers up to 10^20, percentages, money, dates incl. 1/1/1 and 31/12/9999, times, date-times, durations up to the largest representable one and negative ones, unit quantities) joined by each of + - * / and by juxtaposition, in English: returns normally",
                move |ch| {
                    let mut pool: Vec<String> = Vec::new();
                    for ty in ["NUMBER", "PERCENT", "MONEY", "DATE", "TIME", "DATE_TIME", "DURATION", "DYNAMIC_TYPE"] {
                        pool.extend(boundary(ty, &None, "en"));
                    }
                    pool.push("(0 seconds - 200000000 years)".into());
                    pool.push("(0 seconds - 9223372036854775 seconds)".into());
                    let a = ch.pick(&pool).clone();
                    let b = ch.pick(&pool).clone();
                    let op = *ch.pick(&[" + ", " - ", " * ", " / ", " "]);
                    Some(simple("en", format!("{}{}{}", a, op, b)))
                },
            ));
            f.push(Family::new(
                "overflow-to-infinity",
                Mode::Full,
                "values that overflow the double range while they carry a display base: '<lit> * 1Y * 1Y ...' with 13..=16 factors (1Y^15 is infinite) for <lit> in [0x10, 0b1, 0o7, 5, 5 usd, 5%, 5 km], alone, followed by 'to hex | octal | binary | decimal', and through variables ('a = <lit> * 1Y * 1Y * 1Y * 1Y * 1Y / a * a * a / 1 + 1'): returns normally with one slot per line",
                move |ch| {
                    let lit = *ch.pick(&["0x10", "0b1", "0o7", "5", "5 usd", "5%", "5 km"]);
                    let k = 13 + ch.choose(4);
                    let prod = format!("{}{}", lit, " * 1Y".repeat(k));
                    let text = match ch.choose(7) {
                        0 => prod,
                        1 => format!("{} to hex", prod),
                        2 => format!("{} to octal", prod),
                        3 => format!("{} to binary", prod),
                        4 => format!("{} to decimal", prod),
                        5 => format!("a = {} * 1Y * 1Y * 1Y * 1Y * 1Y\na * a * a\n1 + 1", lit),
                        _ => format!("x = {}\nx to octal\n0 - x\n2", prod),
                    };
                    Some(simple("en", text))
                },
            ));
            f.push(Family::new(
                "user-families",
                Mode::Full,
                "calculators that carry user unit families added through the API - one whose lowest item has index 0 (zaa 0, zbb 1, zcc 2), one whose words collide with built-in units (troy-weight), the bystander family 'fmt' - x every ordered pair of their units and of [kg, lb] in 'N A to B', 'N A + M B', 'N A / M B', 'N A B' for N in [1, 0, -5, 1e20]: returns normally",
                move |ch| {
                    let units = ["zaa", "zbb", "zcc", "gr", "dwt", "oz", "lb", "kg", "qq"];
                    let a = *ch.pick(&units);
                    let b = *ch.pick(&units);
                    let n = *ch.pick(&["1", "0", "-5", "100000000000000000000"]);
                    let text = match ch.choose(4) {
                        0 => format!("{} {} to {}", n, a, b),
                        1 => format!("{} {} + 3 {}", n, a, b),
                        2 => format!("{} {} / 3 {}", n, a, b),
                        _ => format!("{} {} {}", n, a, b),
                    };
                    Some(Case { cfg: Cfg { zero_unit: true, troy: true, user_unit: Some((2, true, true)), ..Default::default() }, lang: "en".into(), now: None, text, independent: true })
                },
            ));
            f.push(Family::new(
                "every-operator-character",
                Mode::Full,
                "the tokenizer takes every character that is no digit, letter or blank as an operator: every ordered pair of the number, percentage and money boundary values (thorough: of all kinds) joined by each ASCII punctuation character and by the symbols [x-times, division sign, minus sign, middle dot, not-equal, euro-less currency sign], with blanks around it and without: returns normally",
                move |ch| {
                    let kinds: &[&str] = if tier == Tier::Thorough { &["NUMBER", "PERCENT", "MONEY", "DATE", "TIME", "DURATION", "DYNAMIC_TYPE"] } else { &["NUMBER", "PERCENT", "MONEY"] };
                    let mut pool: Vec<String> = Vec::new();
                    for ty in kinds {
                        pool.extend(boundary(ty, &None, "en"));
                    }
                    let a = ch.pick(&pool).clone();
                    let b = ch.pick(&pool).clone();
                    let ops: Vec<char> = "!\"#$%&'()*+,-./:;<=>?@[\\]^_`{|}~×÷−·≠¤".chars().collect();
                    let op = *ch.pick(&ops);
                    let spaced = ch.flag();
                    Some(simple("en", if spaced { format!("{} {} {}", a, op, b) } else { format!("{}{}{}", a, op, b) }))
                },
            ));
            f.push(Family::new(
                "date-duration-grid",
                Mode::Full,
                &format!("{} dates of a leap and a non-leap year x (days, weeks, months, years) x N in 0..=40, 59, 60, 365, 366, 1000 x (+, -): returns normally", nd),
                move |ch| {
                    let d = *ch.pick(&dates);
                    let unit = *ch.pick(&["days", "weeks", "months", "years"]);
                    let ns: Vec<i64> = (0..=40).chain([59, 60, 365, 366, 1000].into_iter()).collect();
                    let n = *ch.pick(&ns);
                    let op = *ch.pick(&['+', '-']);
                    Some(simple("en", format!("{}/{}/{} {} {} {}", d.2, d.1, d.0, op, n, unit)))
                },
            ));
        }
        // (d) multi-line texts
        {
            let maxl = tier.pick(3, 4);
            f.push(Family::new(
                "multi-line",
                Mode::Full,
                &format!("every text of 1..={} lines over a pool of 12 line kinds (empty, blanks, comment, valid, conversion, malformed '1 +', '(', '=', evaluation error, month rollover, malformed atom, over-long literal) with every mix of LF / CRLF separators, with and without a trailing separator: one slot per line and every slot equals the line evaluated alone", maxl),
                move |ch| {
                    let n = 1 + ch.choose(maxl);
                    let mut text = String::new();
                    for i in 0..n {
                        if i > 0 {
                            text.push_str(*ch.pick(&["\n", "\r\n"]));
                        }
                        text.push_str(*ch.pick(&LINE_POOL));
                    }
                    text.push_str(*ch.pick(&["", "\n", "\r\n"]));
                    Some(Case { cfg: Cfg::default(), lang: "en".into(), now: None, text, independent: true })
                },
            ));
        }
        {
            let maxl = tier.pick(3, 4);
            f.push(Family::new(
                "multi-line-vars",
                Mode::Full,
                &format!("texts of 1..={} lines mixing assignments, uses and failing assignments with the line pool's failing lines (slot count only)", maxl),
                move |ch| {
                    let n = 1 + ch.choose(maxl);
                    let pool: Vec<&str> = VAR_POOL.iter().chain(["1 +", "(", "", "1 usd + 1 km"].iter()).cloned().collect();
                    let mut text = String::new();
                    for i in 0..n {
                        if i > 0 {
                            text.push_str(*ch.pick(&["\n", "\r\n"]));
                        }
                        text.push_str(*ch.pick(&pool));
                    }
                    Some(simple("en", text))
                },
            ));
        }
        // (e) configurations
        {
            let k = tier.pick(2, 3);
            f.push(Family::new(
                "configurations",
                Mode::Deviations(k),
                &format!("30 probe lines x configurations reachable through the setters with at most {} settings away from the default: decimal separator in [',', '.', '', '::'], thousands separator in ['.', ',', '', ' '], decimal digits in [2, 0, 9, 10, 20, 255] for numbers and percentages, both flags, money flags, default zone in [UTC, CET, EST, GMT+5:30, NST]", k),
                move |ch| {
                    let probes = ["1 + 2", "1.234,5 * 2", "1,5", "1.5", "10%", "10 usd", "$1.000,50", "10 usd to try", "1,5 km to m", "2 mb to kb", "11:30 to EST", "today", "1/1/2021 + 1 month", "10 days", "0xFF to binary", "100 to hex", "[NUMBER:0.995]", "[NUMBER:-0.001]", "[NUMBER:1e21]", "[PERCENT:12.345]", "12,5 usd * 3", "1000000", "0,005", "999999,995", "99,995", "1 inch to cm", "1 lb to kg", "200 + 10%", "1619098200 to date", "11:30 + 13 hours"];
                    let dec = *ch.pick_dev(&[",", ".", "", "::"]);
                    let thou = *ch.pick_dev(&[".", ",", "", " "]);
                    let digits = *ch.pick_dev(&[2u8, 0, 9, 10, 20, 255]);
                    let remove = ch.choose_dev(2) == 0;
                    let rounding = ch.choose_dev(2) == 0;
                    let pdigits = *ch.pick_dev(&[2u8, 0, 10, 255]);
                    let mremove = ch.choose_dev(2) == 1;
                    let mrounding = ch.choose_dev(2) == 0;
                    let tz = *ch.pick_dev(&[None, Some("CET"), Some("EST"), Some("GMT+5:30"), Some("NST")]);
                    // the probe line is the innermost choice: consecutive cases share a configuration
                    let text = *ch.pick(&probes);
                    let cfg = Cfg { dec: Some(dec.into()), thou: Some(thou.into()), num: Some((digits, remove, rounding)), pct: Some((pdigits, remove, rounding)), money: Some((mremove, mrounding)), tz: tz.map(|s| s.to_string()), ..Default::default() };
                    Some(Case { cfg, lang: "en".into(), now: None, text: text.into(), independent: false })
                },
            ));
        }
        // (e2) clock-time literals near midnight under every kind of default zone
        f.push(Family::new(
            "zone-times",
            Mode::Full,
            "time literals [0:00, 0:10, 01:30, 12:00, 23:15, 23:59:59, 11 pm, 12:30 am, 24:00] x continuations [none, + 1 hour, - 90 minutes, to UTC, to EST, as unix] x default zones set through set_timezone [UTC, CET, EST, NST, GMT+3, GMT+10:00, GMT-12, GMT+14, GMT-3:30] x languages en/tr: returns normally (the UTC instant of a wall time near midnight lies on another day)",
            move |ch| {
                let t = *ch.pick(&["0:00", "0:10", "01:30", "12:00", "23:15", "23:59:59", "11 pm", "12:30 am", "24:00"]);
                let cont = *ch.pick(&["", " + 1 hour", " - 90 minutes", " to UTC", " to EST", " as unix"]);
                let tz = *ch.pick(&[None, Some("CET"), Some("EST"), Some("NST"), Some("GMT+3"), Some("GMT+10:00"), Some("GMT-12"), Some("GMT+14"), Some("GMT-3:30")]);
                let lang = *ch.pick(&["en", "tr"]);
                let cfg = Cfg { tz: tz.map(|s| s.to_string()), ..Default::default() };
                Some(Case { cfg, lang: lang.into(), now: None, text: format!("{}{}", t, cont), independent: false })
            },
        ));
        // (e3) every pair of unit names the configuration defines, whatever they are
        {
            let mut groups: Vec<Vec<String>> = Vec::new();
            if let Some(types) = spec().json["types"].as_array() {
                for t in types {
                    let mut names = Vec::new();
                    for it in t["items"].as_array().unwrap_or(&Vec::new()) {
                        if let Some(ns) = it["names"].as_array() {
                            if let Some(n) = ns.first().and_then(|n| n.as_str()) {
                                names.push(n.to_string());
                            }
                        }
                    }
                    groups.push(names);
                }
            }
            let all: Vec<(usize, String)> = groups.iter().enumerate().flat_map(|(g, ns)| ns.iter().map(move |n| (g, n.clone()))).collect();
            let n = all.len();
            f.push(Family::new(
                "config-unit-pairs",
                Mode::Full,
                &format!("every ordered pair of the {} unit names that config.json defines (first name of every item of every family, so a unit added to the data is exercised without touching the harness) in '5 A to B', '5 A + 1 B' and '5 A / 2 B': returns normally", n),
                move |ch| {
                    let (_, a) = ch.pick(&all).clone();
                    let (_, b) = ch.pick(&all).clone();
                    let text = match ch.choose(3) {
                        0 => format!("5 {} to {}", a, b),
                        1 => format!("5 {} + 1 {}", a, b),
                        _ => format!("5 {} / 2 {}", a, b),
                    };
                    Some(simple("en", text))
                },
            ));
        }
        // (e4) every word the configuration knows, in a few positions
        {
            fn walk(j: &serde_json::Value, out: &mut std::collections::BTreeSet<String>) {
                fn add(s: &str, out: &mut std::collections::BTreeSet<String>) {
                    for w in s.split_whitespace() {
                        let plain = !w.is_empty() && w.chars().count() <= 16 && !w.chars().any(|c| "{}[]()\\|?*+^$:<>=\"".contains(c));
                        if plain {
                            out.insert(w.to_string());
                        }
                    }
                }
                match j {
                    serde_json::Value::String(s) => add(s, out),
                    serde_json::Value::Array(a) => a.iter().for_each(|x| walk(x, out)),
                    serde_json::Value::Object(o) => {
                        for (k, x) in o {
                            add(k, out);
                            walk(x, out);
                        }
                    }
                    _ => {}
                }
            }
            let mut set = std::collections::BTreeSet::new();
            walk(&spec().json, &mut set);
            let words: Vec<String> = set.into_iter().collect();
            let nw = words.len();
            f.push(Family::new(
                "config-words",
                Mode::Full,
                &format!("every plain word that occurs anywhere in config.json ({} words: aliases, word groups, duration / day / month words, unit names, currency codes, symbols and aliases, zone names, format words) in the positions 'W', '5 W', 'W 5', '5 W 3', 'W W', '5 to W', 'x = W' under en and tr: returns normally", nw),
                move |ch| {
                    let w = ch.pick(&words).clone();
                    let lang = *ch.pick(&["en", "tr"]);
                    let text = match ch.choose(7) {
                        0 => w.clone(),
                        1 => format!("5 {}", w),
                        2 => format!("{} 5", w),
                        3 => format!("5 {} 3", w),
                        4 => format!("{} {}", w, w),
                        5 => format!("5 to {}", w),
                        _ => format!("x = {}", w),
                    };
                    Some(simple(lang, text))
                },
            ));
        }
        // (f) stress shapes
        {
            f.push(Family::new(
                "stress",
                Mode::Full,
                "nesting depth 10/100/1000 (balanced, unbalanced both ways), sums and products of 200/1000 operands, 200/1000 juxtaposed operands, duration lists of 50/500 parts, conversion chains of 50 steps, 400-digit literals, 2000 operators in a row, 1000 '=' signs",
                move |ch| {
                    let n = *ch.pick(&[10usize, 100, 200, 1000]);
                    let kind = ch.choose(12);
                    let text = match kind {
                        0 => format!("{}1{}", "(".repeat(n), ")".repeat(n)),
                        1 => format!("{}1", "(".repeat(n)),
                        2 => format!("1{}", ")".repeat(n)),
                        3 => vec!["1"; n].join(" + "),
                        4 => vec!["2"; n].join(" * "),
                        5 => vec!["7"; n].join(" "),
                        6 => vec!["1 day 2 hours"; n / 2].join(" "),
                        7 => format!("1 km{}", " to m to km".repeat(n.min(50) / 2)),
                        8 => "9".repeat(n.min(400)),
                        9 => "+-*/".repeat(n / 2),
                        10 => "=".repeat(n),
                        _ => format!("{}{}", "1 + (".repeat(n), "2".to_string() + &")".repeat(n)),
                    };
                    Some(simple("en", text))
                },
            ));
        }
        f
    }

    fn exec(&self, ctx: &mut Ctx, c: &Case) -> Verdict {
        seam::set_now(c.now.unwrap_or(seam::DEFAULT_NOW));
        let segs = segments(&c.text);
        let run = obs::eval(ctx.calc(&c.cfg), &c.lang, &c.text);
        let mut input = String::new();
        if c.cfg != Cfg::default() {
            input.push_str(&format!("[{}]", serde_json::to_string(&c.cfg).unwrap()));
        }
        if c.lang != "en" {
            input.push_str(&format!("[lang={}]", c.lang));
        }
        if let Some(n) = c.now {
            input.push_str(&format!("[now={}]", n));
        }
        if c.text.len() > 300 {
            input.push_str(&format!("{}...({} bytes)", c.text.chars().take(120).collect::<String>(), c.text.len()));
        } else {
            input.push_str(&c.text);
        }
        let mut v = Verdict { input, class: "returned", compared: true, expected: format!("returns normally, status true, {} slots", segs.len()), observed: run.brief(), evals: 1, ..Default::default() };
        if v.observed.len() > 400 {
            v.observed = format!("{}...", v.observed.chars().take(400).collect::<String>());
        }
        match &run {
            Run::Panic(p) => {
                v.class = "panic";
                v.violation = Some(format!("panic: {}", p.message));
                v.site = Some(p.site.clone());
            }
            Run::Done(o) => {
                if !o.status {
                    v.violation = Some("status is false".into());
                } else if o.slots.len() != segs.len() {
                    v.violation = Some(format!("{} slots for {} lines", o.slots.len(), segs.len()));
                } else if c.independent {
                    v.class = "returned+independent";
                    for (i, line) in segs.iter().enumerate() {
                        let solo = obs::eval(ctx.calc(&c.cfg), &c.lang, line);
                        v.evals += 1;
                        let same = match &solo {
                            Run::Done(s) if s.slots.len() == 1 => s.slots[0] == o.slots[i],
                            _ => false,
                        };
                        if !same {
                            v.violation = Some(format!("line {} ({:?}) evaluates differently inside the text than alone: {}", i, line, solo.brief()));
                            if let Run::Panic(p) = &solo {
                                v.site = Some(p.site.clone());
                            }
                            break;
                        }
                    }
                }
            }
        }
        seam::set_now(seam::DEFAULT_NOW);
        v
    }

    fn rule(&self) -> String {
        "cases are all choice vectors of the generators (atom sequences, rule-pattern instantiations, date/duration grid, multi-line texts, configurations, stress shapes); every case is non-trivial: the evaluation must return within the 30 s horizon without panicking, with status true and exactly one slot per line of the independently written reference splitter, and for variable-free multi-line texts every slot must equal the line evaluated alone; distinct = distinct (configuration, language, clock, text)".into()
    }
    fn assumptions(&self) -> Vec<String> {
        vec!["lines up to ~8000 characters and nesting up to 1000; stack exhaustion by far deeper nesting (observed near 50 000 levels) is outside the stated bound".into(), "worker threads have 64 MiB of stack".into()]
    }
    fn min_outcomes(&self, _: Tier) -> u64 {
        50
    }
}
