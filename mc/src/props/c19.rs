//! C19 — every configured language is a relabelling of the same calculator.

use crate::corpus::{self, T};
use crate::explore::{Chooser, Family, Mode, Verdict};
use crate::lit::Conv;
use crate::model::calendar as cal;
use crate::obs::{self, Run, Slot, Val};
use crate::props::c09::month_names;
use crate::runner::{Cfg, Ctx, Prop, Tier};
use crate::spec::spec;
use serde::{Deserialize, Serialize};

pub struct C19;

/// a token of a language-independent line: literal text or a word given by its meaning
#[derive(Clone, Debug, Serialize, Deserialize, PartialEq)]
pub enum W {
    Lit(String),
    /// constant_pair id (1 day .. 7 hour, 8 today, 9 tomorrow, 10 yesterday) and synonym index
    Const(u64, usize),
    /// month number and synonym index
    Month(u32, usize),
    /// operator word by its target operator and synonym index
    OpWord(char, usize),
}

#[derive(Clone, Debug, Serialize, Deserialize)]
pub enum Case {
    /// a line by meaning, evaluated in `lang` with the chosen synonyms and in English with the
    /// canonical (first) synonyms
    Translated { lang: String, words: Vec<W> },
    /// a word-free line: identical observation in every language
    WordFree { text: String },
    /// a phrase whose wording differs between the languages beyond single words: (language, the
    /// line in that language, its English counterpart)
    Pair { lang: String, line: String, en: String },
    /// ONE session: the first text evaluated in English binds `t` to a date-time, then the session's
    /// language is switched and the second text is evaluated: the date-time result is printed with
    /// the month names of the language in force (month number, year expected in the output)
    SessionSwitch { lang: String, first: String, second: String, month: u32, year: i32 },
    /// an operator word of `lang` against the operator symbol
    OpWord { lang: String, word: String, op: char, form: u8 },
}

fn const_words(lang: &str, id: u64) -> Vec<String> {
    let mut v = Vec::new();
    if let Some(o) = spec().lang(lang)["constant_pair"].as_object() {
        for (w, n) in o {
            if n.as_u64() == Some(id) {
                v.push(w.clone());
            }
        }
    }
    v
}

fn op_words(lang: &str, op: char) -> Vec<String> {
    let mut v = Vec::new();
    let target = format!("[OPERATOR:{}]", op);
    if let Some(o) = spec().lang(lang)["alias"].as_object() {
        for (w, t) in o {
            if t.as_str() == Some(&target) {
                v.push(w.clone());
            }
        }
    }
    v
}

fn nsyn(lang: &str, w: &W) -> usize {
    match w {
        W::Lit(_) => 1,
        W::Const(id, _) => const_words(lang, *id).len(),
        W::Month(m, _) => month_names(lang, *m as i64).len(),
        W::OpWord(op, _) => op_words(lang, *op).len(),
    }
}

fn word(lang: &str, w: &W, canonical: bool) -> Option<String> {
    match w {
        W::Lit(s) => Some(s.clone()),
        W::Const(id, k) => {
            let ws = const_words(lang, *id);
            ws.get(if canonical { 0 } else { *k }).cloned()
        }
        W::Month(m, k) => {
            let ws = month_names(lang, *m as i64);
            ws.get(if canonical { 0 } else { *k }).cloned()
        }
        W::OpWord(op, k) => {
            let ws = op_words(lang, *op);
            ws.get(if canonical { 0 } else { *k }).cloned()
        }
    }
}

fn render(lang: &str, words: &[W], canonical: bool) -> Option<String> {
    let mut parts = Vec::new();
    for w in words {
        parts.push(word(lang, w, canonical)?);
    }
    Some(parts.join(" "))
}

fn lit(s: &str) -> W {
    W::Lit(s.to_string())
}

/// pick a synonym index for every word of the line in `lang` (one deviation point per word)
fn with_synonyms(ch: &mut Chooser, lang: &str, words: Vec<W>) -> Option<Vec<W>> {
    let mut out = Vec::new();
    for w in words {
        let n = nsyn(lang, &w);
        if n == 0 {
            return None; // the language has no word for this meaning
        }
        let k = ch.choose_dev(n);
        out.push(match w {
            W::Lit(s) => W::Lit(s),
            W::Const(id, _) => W::Const(id, k),
            W::Month(m, _) => W::Month(m, k),
            W::OpWord(op, _) => W::OpWord(op, k),
        });
    }
    Some(out)
}

/// printed duration -> (count, unit id) parts, using the language's own words (config format words
/// are the printed ones: take every word of constant_pair for ids 1..7)
fn parse_duration_print(lang: &str, out: &str) -> Option<Vec<(i64, u64)>> {
    let toks: Vec<&str> = out.split_whitespace().collect();
    if toks.len() % 2 != 0 {
        return None;
    }
    let mut parts = Vec::new();
    for p in toks.chunks(2) {
        let n: i64 = p[0].parse().ok()?;
        let id = (1..=7u64).find(|id| const_words(lang, *id).iter().any(|w| w == p[1]))?;
        parts.push((n, id));
    }
    Some(parts)
}

/// printed date -> (day, month, optional year) using the language's own month names
fn parse_date_print(lang: &str, out: &str) -> Option<(i64, i64, Option<i64>)> {
    let toks: Vec<&str> = out.split_whitespace().collect();
    if toks.len() < 2 || toks.len() > 3 {
        return None;
    }
    let d: i64 = toks[0].parse().ok()?;
    let m = (1..=12i64).find(|m| month_names(lang, *m).iter().any(|n| n.to_lowercase() == toks[1].to_lowercase()))?;
    let y = match toks.get(2) {
        Some(y) => Some(y.parse().ok()?),
        None => None,
    };
    Some((d, m, y))
}

fn relate(calc: &smartcalc::SmartCalc, lang: &str, tl: &str, te: &str) -> Verdict {
    let a = obs::eval(calc, lang, tl);
    let b = obs::eval(calc, "en", te);
    let mut v = Verdict { input: format!("[{}] {}", lang, tl), class: "translation-compared", compared: true, expected: format!("[en] {} -> {}", te, b.brief()), observed: a.brief(), evals: 2, ..Default::default() };
    if let Run::Panic(p) = &a {
        v.violation = Some(format!("panic: {}", p.message));
        v.site = Some(p.site.clone());
        return v;
    }
    let (sa, sb) = match (a.last(), b.last()) {
        (Some(x), Some(y)) => (x.clone(), y.clone()),
        _ => {
            v.violation = Some("not one slot".into());
            return v;
        }
    };
    match (&sa, &sb) {
        (Slot::Ok { val: va, out: oa }, Slot::Ok { val: vb, out: ob }) => {
            if !obs::val_close(va, vb, 1e-12) {
                v.violation = Some("the translated line has a different value than its English counterpart".into());
                return v;
            }
            // printed with the language's own words
            match va {
                Val::Duration(_) => {
                    let (pa, pb) = (parse_duration_print(lang, oa), parse_duration_print("en", ob));
                    if pa.is_none() || pa != pb {
                        v.violation = Some(format!("the duration is not printed with the language's own unit words (parts {:?} vs English {:?})", pa, pb));
                    }
                }
                Val::Date { .. } => {
                    let (pa, pb) = (parse_date_print(lang, oa), parse_date_print("en", ob));
                    if pa.is_none() || pa != pb {
                        v.violation = Some(format!("the date is not printed with the language's own month names (fields {:?} vs English {:?})", pa, pb));
                    }
                }
                _ => {
                    if oa != ob {
                        v.violation = Some("printed forms differ".into());
                    }
                }
            }
        }
        (_, Slot::Ok { .. }) => v.violation = Some("the translated line does not evaluate although its English counterpart does".into()),
        _ => {
            // the English counterpart itself does not evaluate: nothing to relate
            v.class = "not-evaluable";
            v.compared = false;
        }
    }
    v
}

impl Prop for C19 {
    type Case = Case;
    fn id(&self) -> &'static str {
        "C19"
    }

    fn families(&self, tier: Tier) -> Vec<Family<Case>> {
        let mut f = Vec::new();
        let langs: Vec<String> = spec().languages.iter().filter(|l| *l != "en").cloned().collect();
        {
            let langs = langs.clone();
            let counts: Vec<i64> = tier.pick(vec![0, 1, 2, 12, 59, 60, 365], (0..=60).chain([100, 365, 1000].into_iter()).collect());
            f.push(Family::new(
                "n-unit",
                Mode::Full,
                &format!("'N <unit>' for N in {:?} x 7 units x every synonym of the unit word in every non-English language, against the English counterpart", counts),
                move |ch| {
                    let l = ch.pick(&langs).clone();
                    let n = *ch.pick(&counts);
                    let id = 1 + ch.choose(7) as u64;
                    let k = ch.choose(nsyn(&l, &W::Const(id, 0)).max(1));
                    Some(Case::Translated { lang: l, words: vec![lit(&n.to_string()), W::Const(id, k)] })
                },
            ));
        }
        {
            let langs = langs.clone();
            f.push(Family::new(
                "lists-and-sums",
                Mode::Deviations(2),
                "duration lists of 2..=4 parts, sums and differences of two durations, with at most 2 words taken from a non-default synonym",
                move |ch| {
                    let l = ch.pick(&langs).clone();
                    let shape = ch.choose(6);
                    let words = match shape {
                        0 => vec![lit("1"), W::Const(4, 0), lit("2"), W::Const(3, 0), lit("3"), W::Const(1, 0)],
                        1 => vec![lit("2"), W::Const(2, 0), lit("5"), W::Const(7, 0)],
                        2 => vec![lit("1"), W::Const(7, 0), lit("30"), W::Const(6, 0), lit("15"), W::Const(5, 0)],
                        3 => vec![lit("3"), W::Const(1, 0), lit("+"), lit("12"), W::Const(7, 0)],
                        4 => vec![lit("2"), W::Const(2, 0), lit("-"), lit("3"), W::Const(1, 0)],
                        _ => vec![lit("1"), W::Const(4, 0), lit("11"), W::Const(3, 0), lit("3"), W::Const(2, 0), lit("6"), W::Const(1, 0)],
                    };
                    with_synonyms(ch, &l, words).map(|w| Case::Translated { lang: l, words: w })
                },
            ));
        }
        {
            let langs = langs.clone();
            let days: Vec<i64> = tier.pick(vec![1, 15, 28], vec![1, 9, 15, 28, 30, 31]);
            f.push(Family::new(
                "dates",
                Mode::Full,
                "'d <Month> y' and 'd <Month>' (current year) for every month x days x years [2020, 1999] x every month-name synonym of every non-English language; also '+ N <unit>' for (10 days, 2 weeks, 3 months, 1 year) and the duration written directly behind the date without an operator ('12 <March> 3 <days>', '12 <March> 2021 2 <weeks> 1 <day>')",
                move |ch| {
                    let l = ch.pick(&langs).clone();
                    let m = 1 + ch.choose(12) as u32;
                    let k = ch.choose(nsyn(&l, &W::Month(m, 0)).max(1));
                    let d = *ch.pick(&days);
                    let y = *ch.pick(&[Some(2020i64), Some(1999), None]);
                    if !cal::valid(y.unwrap_or(2026), m as i64, d) {
                        return None;
                    }
                    let mut words = vec![lit(&d.to_string()), W::Month(m, k)];
                    if let Some(y) = y {
                        words.push(lit(&y.to_string()));
                    }
                    let tail = ch.choose(7);
                    match tail {
                        0 => {}
                        // the duration directly behind the date, no operator between them
                        5 => words.extend([lit("3"), W::Const(1, 0)]),
                        6 => words.extend([lit("2"), W::Const(2, 0), lit("1"), W::Const(1, 0)]),
                        1 => words.extend([lit("+"), lit("10"), W::Const(1, 0)]),
                        2 => words.extend([lit("+"), lit("2"), W::Const(2, 0)]),
                        3 => words.extend([lit("+"), lit("3"), W::Const(3, 0)]),
                        _ => words.extend([lit("-"), lit("1"), W::Const(4, 0)]),
                    }
                    Some(Case::Translated { lang: l, words })
                },
            ));
        }
        {
            let langs = langs.clone();
            f.push(Family::new(
                "day-and-operator-words",
                Mode::Full,
                "today / tomorrow / yesterday alone and '+ 3 <weeks>', and arithmetic with operator words (2 <times> 3, 10 <minus> 4, 1 <add> 2, 2 <times> 3 <add> 4) for every synonym of every non-English language",
                move |ch| {
                    let l = ch.pick(&langs).clone();
                    let shape = ch.choose(7);
                    let words = match shape {
                        0 => vec![W::Const(8, 0)],
                        1 => vec![W::Const(9, 0)],
                        2 => vec![W::Const(10, 0)],
                        3 => vec![W::Const(9, 0), lit("+"), lit("3"), W::Const(2, 0)],
                        4 => vec![lit("2"), W::OpWord('*', 0), lit("3")],
                        5 => vec![lit("10"), W::OpWord('-', 0), lit("4")],
                        _ => vec![lit("2"), W::OpWord('*', 0), lit("3"), W::OpWord('+', 0), lit("4")],
                    };
                    // every synonym of the first word-by-meaning
                    let mut out = Vec::new();
                    let mut varied = false;
                    for w in words {
                        let n = nsyn(&l, &w);
                        if n == 0 {
                            return None;
                        }
                        if !varied && !matches!(w, W::Lit(_)) {
                            varied = true;
                            let k = ch.choose(n);
                            out.push(match w {
                                W::Const(id, _) => W::Const(id, k),
                                W::OpWord(op, _) => W::OpWord(op, k),
                                other => other,
                            });
                        } else {
                            out.push(w);
                        }
                    }
                    Some(Case::Translated { lang: l, words: out })
                },
            ));
        }
        {
            // word-free lines: arithmetic, percentage phrases, money without connective, variables
            let mut texts: Vec<String> = Vec::new();
            for (tag, ts) in corpus::lines() {
                if !["arith", "percent", "money", "var"].contains(&tag) {
                    continue;
                }
                // connectives of the conversion group are words of a language: leave those lines out
                if ts.iter().any(|t| matches!(t, T::Kw(w) if ["to", "in", "as", "into"].contains(&w.as_str()))) {
                    continue;
                }
                if ts.iter().any(|t| matches!(t, T::Word(_))) {
                    continue;
                }
                texts.push(corpus::render(&ts, &Conv::default_lib()));
            }
            texts.extend(["(1 + 2) * 3 - 4 / 5", "2 * - 3", "7 2 3", "0xFF + 1", "a = 5\nb = a * 2\nb + a", "12,5 usd * 3", "$10 + €5", "10 usd try", "200 - 12,5%"].iter().map(|s| s.to_string()));
            let nt = texts.len();
            f.push(Family::new(
                "word-free",
                Mode::Full,
                &format!("{} word-free lines (arithmetic, percentage phrases, money literals / conversion without connective / arithmetic, variables): identical observation in every configured language", nt),
                move |ch| Some(Case::WordFree { text: ch.pick(&texts).clone() }),
            ));
        }
        // the word-free generators of the other properties, run under every language
        f.push(Family::new(
            "word-free-arithmetic",
            Mode::Full,
            "every expression tree with 1..=3 leaves x 4 operators x literals [7, 2, 0.5, -3] in the Minimal and Tight renderings (the C02 generator): identical observation in every configured language",
            move |ch| {
                use crate::model::arith::{self, Style};
                let n = 1 + ch.choose(3);
                let e = super::c02::tree(ch, n, &["7", "2", "0.5", "-3"]);
                let style = *ch.pick(&[Style::Minimal, Style::Tight]);
                let toks = arith::tokens(&e, style, &Conv::default_lib());
                if arith::has_date_triple(&toks) {
                    return None;
                }
                Some(Case::WordFree { text: arith::join(&toks, style) })
            },
        ));
        f.push(Family::new(
            "word-free-percent-money",
            Mode::Full,
            "'X + p%', 'X - p%' (both percent spellings, X plain / by code / by symbol), money sums, differences, ratios, scalings and connective-free conversions over 6 currencies: identical observation in every configured language",
            move |ch| {
                let which = ch.choose(2);
                if which == 0 {
                    let x = *ch.pick(&["40", "0", "-2,5", "1234,5"]);
                    let p = *ch.pick(&["6", "0", "2,5", "150"]);
                    let xt = match ch.choose(3) {
                        0 => x.to_string(),
                        1 => format!("{} usd", x),
                        _ => format!("${}", x),
                    };
                    let pt = if ch.flag() { format!("%{}", p) } else { format!("{}%", p) };
                    let op = *ch.pick(&["+", "-"]);
                    Some(Case::WordFree { text: format!("{} {} {}", xt, op, pt) })
                } else {
                    let curs = ["usd", "try", "eur", "jpy", "gbp", "dkk"];
                    let a = *ch.pick(&curs);
                    let b = *ch.pick(&curs);
                    let text = match ch.choose(5) {
                        0 => format!("12,5 {} + 3 {}", a, b),
                        1 => format!("12,5 {} - 3 {}", a, b),
                        2 => format!("12,5 {} / 3 {}", a, b),
                        3 => format!("12,5 {} * 2", a),
                        _ => format!("10 {} {}", a, b),
                    };
                    Some(Case::WordFree { text })
                }
            },
        ));
        {
            let langs = langs.clone();
            f.push(Family::new(
                "duration-lists-all",
                Mode::Full,
                "every duration list of 2..=6 parts whose units are a subsequence of (year, month, week, day, hour, minute, second), written largest-first and smallest-first, part i with count i+1; alone, added to '15 <December> 2020', and added to '11:30': against the English counterpart (a language's combine rules are its own configuration data)",
                move |ch| {
                    let l = ch.pick(&langs).clone();
                    let order: [u64; 7] = [4, 3, 2, 1, 7, 6, 5];
                    let mut ids = Vec::new();
                    for id in order {
                        if ch.flag() {
                            ids.push(id);
                        }
                    }
                    if ids.len() < 2 || ids.len() > 6 {
                        return None;
                    }
                    if ch.flag() {
                        ids.reverse();
                    }
                    let mut words = match ch.choose(3) {
                        0 => vec![],
                        1 => vec![lit("15"), W::Month(12, 0), lit("2020"), lit("+")],
                        _ => vec![lit("11:30"), lit("+")],
                    };
                    let on_time = matches!(words.first(), Some(W::Lit(t)) if t == "11:30");
                    if on_time && ids.iter().any(|id| [4, 3, 2, 1].contains(id)) {
                        return None; // a clock time plus whole days is not a statement of any property
                    }
                    for (i, id) in ids.iter().enumerate() {
                        words.push(lit(&(i + 2).to_string()));
                        words.push(W::Const(*id, 0));
                    }
                    Some(Case::Translated { lang: l, words })
                },
            ));
        }
        f.push(Family::new(
            "between-phrases",
            Mode::Full,
            "the difference phrase, whose wording is not word-by-word: tr 'A B arası' against en 'A to B' for all ordered pairs of the times [0:00, 10:00, 13:45, 23:59] and of the dates [1/2/2021, 15/3/2021, 31/12/1999] (numeric, so only the phrase differs), the ends written out or held in one- and two-word variables, and both ends written 'd <Month>' without a year: same duration, printed with the language's unit words",
            move |ch| {
                let times = ["0:00", "10:00", "13:45", "23:59"];
                let dates = ["1/2/2021", "15/3/2021", "31/12/1999"];
                let (a, b) = if ch.flag() { (*ch.pick(&times), *ch.pick(&times)) } else { (*ch.pick(&dates), *ch.pick(&dates)) };
                if !spec().languages.iter().any(|l| l == "tr") {
                    return None;
                }
                // the two ends written out, one end held in a variable, both ends held in variables
                // (in Turkish the two names then stand directly next to each other)
                match ch.choose(5) {
                    // both ends written 'd Month' without a year (only once per pair of positions)
                    4 => {
                        let pairs = [((12i64, 3i64), (15i64, 4i64)), ((1, 1), (28, 2)), ((5, 6), (20, 6))];
                        let ((d1, m1), (d2, m2)) = pairs[(a.len() + b.len()) % 3];
                        let tr = |d: i64, m: i64| format!("{} {}", d, month_names("tr", m)[0]);
                        let en = |d: i64, m: i64| format!("{} {}", d, month_names("en", m)[0]);
                        Some(Case::Pair { lang: "tr".into(), line: format!("{} {} arası", tr(d1, m1), tr(d2, m2)), en: format!("{} to {}", en(d1, m1), en(d2, m2)) })
                    }
                    0 => Some(Case::Pair { lang: "tr".into(), line: format!("{} {} arası", a, b), en: format!("{} to {}", a, b) }),
                    1 => Some(Case::Pair { lang: "tr".into(), line: format!("a = {}\na {} arası", a, b), en: format!("a = {}\na to {}", a, b) }),
                    2 => Some(Case::Pair { lang: "tr".into(), line: format!("a = {}\nb = {}\na b arası", a, b), en: format!("a = {}\nb = {}\na to b", a, b) }),
                    _ => Some(Case::Pair { lang: "tr".into(), line: format!("shift start = {}\nshift end = {}\nshift start shift end arası", a, b), en: format!("shift start = {}\nshift end = {}\nshift start to shift end", a, b) }),
                }
            },
        ));
        {
            let langs = langs.clone();
            f.push(Family::new(
                "session-language-switch",
                Mode::Full,
                "ONE session: English 't = 5 <month> 1999 at 8:15' for every month, then set_language(L) for every other configured language L and 't', 't + 1 <hour>' , 't - 40 <days>' (L's own words): the date-time result is printed with L's short month name (a date-time can only be written in English; the language in force when a value is printed decides the words)",
                move |ch| {
                    let l = ch.pick(&langs).clone();
                    let m = 1 + ch.choose(12) as u32;
                    let en_month = crate::props::c09::month_names("en", m as i64)[0].clone();
                    let first = format!("t = 5 {} 1999 at 8:15", en_month);
                    let (second, month, year) = match ch.choose(3) {
                        0 => ("t".to_string(), m, 1999),
                        1 => (format!("t + 1 {}", word(&l, &W::Const(7, 0), false)?), m, 1999),
                        _ => {
                            // 40 days back from the 5th lands in the month before the previous one's end: compute it
                            let d0 = cal::days_from_civil(1999, m as i64, 5) - 40;
                            let (y, mm, _) = cal::civil_from_days(d0);
                            (format!("t - 40 {}", word(&l, &W::Const(1, 0), false)?), mm as u32, y as i32)
                        }
                    };
                    Some(Case::SessionSwitch { lang: l, first, second, month, year })
                },
            ));
        }
        f.push(Family::new(
            "operator-word-synonyms",
            Mode::Full,
            "'5 W 3', '12 W 4 W 2' and 'x = 7 / x W 2' for every operator word W (every alias of config.json that stands for + - * /) of EVERY configured language, English included: the value of the same line written with the operator symbol",
            move |ch| {
                let langs = crate::spec::spec().languages.clone();
                let l = ch.pick(&langs).clone();
                let op = *ch.pick(&['+', '-', '*', '/']);
                let words = op_words(&l, op);
                if words.is_empty() {
                    return None;
                }
                let w = ch.pick(&words).clone();
                let form = ch.choose(3);
                Some(Case::OpWord { lang: l, word: w, op, form: form as u8 })
            },
        ));
        f.push(Family::new(
            "word-free-units",
            Mode::Full,
            "unit arithmetic without connective words: 'x A + y B', 'x A - y B', 'x A / y B', 'x A * 2' for every ordered same-kind pair of the 33 units, the unit names written as configured, UPPER-CASE and Capitalised (unit names are not words of a language): identical observation in every configured language",
            move |ch| {
                use crate::model::units::UNITS;
                let i = ch.choose(UNITS.len());
                let j = ch.choose(UNITS.len());
                if UNITS[i].kind != UNITS[j].kind {
                    return None;
                }
                let case = ch.choose(3);
                let re = |s: &str| match case {
                    0 => s.to_string(),
                    1 => s.to_uppercase(),
                    _ => {
                        let mut c = s.chars();
                        c.next().map(|f| f.to_uppercase().collect::<String>() + c.as_str()).unwrap_or_default()
                    }
                };
                let (a, b) = (re(UNITS[i].short), re(UNITS[j].short));
                let text = match ch.choose(4) {
                    0 => format!("500 {} + 1 {}", a, b),
                    1 => format!("500 {} - 1 {}", a, b),
                    2 => format!("500 {} / 2 {}", a, b),
                    _ => format!("3 {} * 4", a),
                };
                Some(Case::WordFree { text })
            },
        ));
        f.push(Family::new(
            "word-free-programs",
            Mode::Full,
            "every program of 1..=2 lines over the 26 number line kinds of C03 (bindings, re-bindings, uses, failing lines): identical observation in every configured language",
            move |ch| {
                let n = 1 + ch.choose(2);
                let mut lines = Vec::new();
                for _ in 0..n {
                    lines.push(ch.pick(&super::c03::NUM_LINES).to_string());
                }
                Some(Case::WordFree { text: lines.join("\n") })
            },
        ));
        f
    }

    fn exec(&self, ctx: &mut Ctx, case: &Case) -> Verdict {
        let calc = ctx.calc(&Cfg::default());
        match case {
            Case::OpWord { lang, word, op, form } => {
                let mk = |o: &str| match form {
                    0 => format!("5 {} 3", o),
                    1 => format!("12 {} 4 {} 2", o, o),
                    _ => format!("x = 7\nx {} 2", o),
                };
                let (tw, ts) = (mk(word), mk(&op.to_string()));
                let a = obs::eval(calc, lang, &tw);
                let b = obs::eval(calc, lang, &ts);
                let mut v = Verdict { input: format!("[{}] {}", lang, tw.replace('\n', " \\n ")), class: "translation-compared", compared: true, expected: format!("{} -> {}", ts.replace('\n', " \\n "), b.brief()), observed: a.brief(), evals: 2, ..Default::default() };
                let last = |r: &Run| match r {
                    Run::Done(o) => o.slots.last().cloned(),
                    _ => None,
                };
                match (last(&a), last(&b)) {
                    (Some(Slot::Ok { val: x, .. }), Some(Slot::Ok { val: y, .. })) if obs::val_close(&x, &y, 1e-12) => {}
                    (_, Some(Slot::Ok { .. })) => {
                        if let Run::Panic(p) = &a {
                            v.site = Some(p.site.clone());
                        }
                        v.violation = Some(format!("the operator word {:?} of language {} does not act like '{}'", word, lang, op));
                    }
                    _ => {
                        v.class = "not-evaluable";
                        v.compared = false;
                    }
                }
                v
            }
            Case::WordFree { text } => {
                let mut v = Verdict { input: text.replace('\n', " \\n "), class: "languages-compared", compared: true, expected: "identical observation in every language".into(), ..Default::default() };
                let base = obs::eval(calc, "en", text);
                v.evals += 1;
                v.observed = base.brief();
                let key = |r: &Run| match r {
                    Run::Done(o) => format!("{:?}", o.slots),
                    Run::Panic(p) => format!("PANIC {}", p.message),
                };
                if !matches!(&base, Run::Done(o) if o.slots.iter().any(|s| matches!(s, Slot::Ok { .. }))) {
                    v.class = "not-evaluable";
                    v.compared = false;
                    return v;
                }
                for l in spec().languages.iter() {
                    if l == "en" {
                        continue;
                    }
                    let r = obs::eval(calc, l, text);
                    v.evals += 1;
                    if key(&r) != key(&base) {
                        if let Run::Panic(p) = &r {
                            v.site = Some(p.site.clone());
                        }
                        v.observed = format!("en: {} ;; {}: {}", base.brief(), l, r.brief());
                        v.violation = Some(format!("a word-free line behaves differently in language {}", l));
                        return v;
                    }
                }
                v
            }
            Case::Translated { lang, words } => {
                let (tl, te) = match (render(lang, words, false), render("en", words, true)) {
                    (Some(a), Some(b)) => (a, b),
                    _ => {
                        return Verdict { input: format!("{:?}", words), class: "untranslatable", ..Default::default() };
                    }
                };
                relate(calc, lang, &tl, &te)
            }
            Case::Pair { lang, line, en } => relate(calc, lang, line, en),
            Case::SessionSwitch { lang, first, second, month, year } => {
                let mut session = smartcalc::Session::new();
                session.set_language("en".to_string());
                let a = obs::eval_session(calc, &mut session, Some(first));
                session.set_language(lang.clone());
                let b = obs::eval_session(calc, &mut session, Some(second));
                let mut v = Verdict { input: format!("[en] {} ;; set_language({}) ;; {}", first, lang, second), class: "printed-words-compared", compared: true, evals: 2, observed: format!("{} ;; {}", a.brief(), b.brief()), ..Default::default() };
                let names: Vec<String> = spec().json["languages"][lang.as_str()]["short_months"].as_object().map(|o| o.iter().filter(|(_, n)| n.as_u64() == Some(*month as u64)).map(|(k, _)| k.to_lowercase()).collect()).unwrap_or_default();
                v.expected = format!("a date-time of {} printed with one of the short month names {:?} of {}", year, names, lang);
                match b.last() {
                    Some(Slot::Ok { val: Val::DateTime { .. }, out }) => {
                        let low = out.to_lowercase();
                        if !names.iter().any(|n| low.split(' ').any(|w| w == n)) || !out.contains(&year.to_string()) {
                            v.violation = Some("the date-time is not printed with the month name of the language in force".into());
                        }
                    }
                    _ => {
                        if let Run::Panic(p) = &b {
                            v.site = Some(p.site.clone());
                        }
                        v.violation = Some("the date-time held in the session is not evaluated after the language switch".into());
                    }
                }
                v
            }
        }
    }

    fn rule(&self) -> String {
        "a translated case is a line given by meaning (constant ids for duration/day words, target operator for operator words, month number) rendered in a non-English language with a chosen synonym per word and in English with the canonical words; both are evaluated, values must agree and dates/durations must be printed with the language's own month names / unit words (parsed back through the language's table); word-free lines must give identical slots in every language; non-trivial = the English counterpart evaluates; distinct = distinct (language, text)".into()
    }
    fn assumptions(&self) -> Vec<String> {
        vec!["the translation table is built by meaning from config.json; connectives and rule keywords a language does not define (tr has no 'to'/'as') and zone names are outside the statement".into()]
    }
}
