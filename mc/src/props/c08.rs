//! C08 — separators affect only reading and printing of numbers, never the computed value.

use crate::corpus::{self, T};
use crate::explore::{Family, Mode, Verdict};
use crate::lit::{self, Conv};
use crate::obs::{self, Base, Run, Slot, Val};
use crate::runner::{Cfg, Ctx, Prop, Tier};
use serde::{Deserialize, Serialize};

pub struct C08;

#[derive(Clone, Debug, Serialize, Deserialize)]
pub enum Case {
    /// one literal alone: (canonical decimal, grouped, convention index)
    Literal(String, bool, usize),
    /// a tagged line, evaluated under every convention
    Line(Vec<T>),
    /// ONE calculator whose separators are switched through the setters between evaluations:
    /// sequence of convention indices; after every switch every literal is read again
    Switched(Vec<usize>),
    /// a literal with grouping, fraction and magnitude suffix: (canonical, grouped, suffix, factor, convention, form)
    Suffixed(String, bool, String, f64, usize, u8),
    /// an expression tree of the C02 generator with fractional / large literals: rendered (style,
    /// grouped?) and evaluated under every convention against the reference evaluator
    Tree(crate::model::arith::Expr, crate::model::arith::Style, bool),
    /// a literal (canonical decimal, grouped) or the line 'L * 2' / 'L km to m' under a convention
    /// whose separators are not ',' / '.': (decimal separator, thousands separator, canonical, grouped, form)
    Other(String, String, String, bool, u8),
}

pub fn conventions() -> Vec<Conv> {
    vec![Conv::new(",", "."), Conv::new(".", ","), Conv::new(".", ""), Conv::new(",", "")]
}

fn fills(tier: Tier) -> Vec<(&'static str, bool)> {
    match tier {
        Tier::Quick => vec![("1.5", false), ("0.25", false), ("1234.5", true), ("1000", true), ("12.5", false)],
        Tier::Thorough => vec![("1.5", false), ("0.25", false), ("1234.5", true), ("1234.5", false), ("1000", true), ("12.5", false), ("0.001", false), ("1000000.75", true), ("999.995", false)],
    }
}

fn want_grouped(v: &Val) -> bool {
    match v {
        Val::Number(x, _) | Val::Unit(x, _, _) => x.abs() >= 1000.0,
        _ => false,
    }
}

impl Prop for C08 {
    type Case = Case;
    fn id(&self) -> &'static str {
        "C08"
    }

    fn families(&self, tier: Tier) -> Vec<Family<Case>> {
        let mut f = Vec::new();
        f.push(Family::new(
            "literals",
            Mode::Full,
            "each literal of [0.5, 1.5, 0.25, 12.5, 0.001, 999.995, 1234.5, 1000, 1000000, 1234567.125, -2.5, -1234.5, 1234567890.255, 1099511627776, 2500000000000.5, 999999999999999, -100000, -250000.5, +250000] alone, plain and (where the integer part has more than three digits) grouped, under each of the 4 conventions (',' '.'), ('.' ','), ('.' ''), (',' ''): denotes the intended number",
            move |ch| {
                let c = *ch.pick(&["0.5", "1.5", "0.25", "12.5", "0.001", "999.995", "1234.5", "1000", "1000000", "1234567.125", "-2.5", "-1234.5", "1234567890.255", "1099511627776", "2500000000000.5", "999999999999999", "-100000", "-250000.5", "+250000"]);
                let g = ch.flag();
                let k = ch.choose(4);
                Some(Case::Literal(c.to_string(), g, k))
            },
        ));
        let lines: Vec<(&'static str, Vec<T>)> = corpus::lines().into_iter().filter(|(tag, _)| ["arith", "percent", "money", "unit", "var"].contains(tag)).collect();
        let nl = lines.len();
        let fl = fills(tier);
        f.push(Family::new(
            "lines",
            Mode::Full,
            &format!("{} corpus lines (arithmetic, percentage phrases, money conversion and arithmetic, unit conversion and arithmetic within and across metric/imperial, values passed through a variable), every numeric slot filled with every literal of {:?} (fraction / grouped), each rendered and evaluated under all 4 separator conventions: same value under every convention", nl, fl),
            move |ch| {
                let (_, base) = ch.pick(&lines).clone();
                let mut ts = base.clone();
                for idx in corpus::num_slots(&base) {
                    let (c, g) = *ch.pick(&fl);
                    ts = corpus::with_num(&ts, idx, c, g);
                }
                if !corpus::has_fraction_or_group(&ts) {
                    return None;
                }
                Some(Case::Line(ts))
            },
        ));
        {
            // the pair generators of C12 and C06, with fractional and grouped amounts
            use crate::model::units::{Kind, UNITS};
            let mut upairs: Vec<(usize, usize)> = Vec::new();
            for (i, a) in UNITS.iter().enumerate() {
                for (j, b) in UNITS.iter().enumerate() {
                    if a.kind == b.kind && i != j && (tier == Tier::Thorough || a.kind == Kind::Length) {
                        upairs.push((i, j));
                    }
                }
            }
            let amounts: Vec<(&'static str, bool)> = tier.pick(vec![("1.5", false), ("1234.5", true)], vec![("1.5", false), ("0.25", false), ("1234.5", true), ("1234.5", false), ("0.001", false), ("1000000.75", true)]);
            let (np, na) = (upairs.len(), amounts.len());
            f.push(Family::new(
                "unit-pairs",
                Mode::Full,
                &format!("'x A to B' for {} ordered same-kind unit pairs (quick: lengths within and across metric/imperial; thorough: all kinds) x {} fractional / grouped amounts, rendered and evaluated under all 4 conventions: the nested evaluation of every chain step and bridge sees fractional intermediate values in both directions", np, na),
                move |ch| {
                    let (i, j) = *ch.pick(&upairs);
                    let (a, g) = *ch.pick(&amounts);
                    Some(Case::Line(corpus::tpl(&format!("N:{}{} W:{} K:to W:{}", a, if g { "g" } else { "" }, UNITS[i].short, UNITS[j].short))))
                },
            ));
            let rated = crate::spec::spec().rated();
            let curs: Vec<String> = if tier == Tier::Thorough { rated } else { rated.into_iter().step_by(4).collect() };
            let nc = curs.len();
            f.push(Family::new(
                "money-pairs",
                Mode::Full,
                &format!("'x A to B', 'x A + 2,5 B' and 'x A / 0,5 B' for all ordered pairs of {} rated currencies, x fractional / grouped, under all 4 conventions", nc),
                move |ch| {
                    let a = ch.pick(&curs).clone();
                    let b = ch.pick(&curs).clone();
                    let (x, g) = *ch.pick(&[("12.5", false), ("1234.5", true)]);
                    let n = format!("N:{}{}", x, if g { "g" } else { "" });
                    let t = match ch.choose(3) {
                        0 => format!("{} C:{} K:to C:{}", n, a, b),
                        1 => format!("{} C:{} O:+ N:2.5 C:{}", n, a, b),
                        _ => format!("{} C:{} O:/ N:0.5 C:{}", n, a, b),
                    };
                    Some(Case::Line(corpus::tpl(&t)))
                },
            ));
        }
        {
            // lines without any fractional or grouped literal: the separators must not matter at all
            let plain: Vec<Vec<T>> = corpus::lines().into_iter().filter(|(_, ts)| !corpus::has_fraction_or_group(ts)).map(|(_, ts)| ts).collect();
            let extra = ["R:12/02/1988 O:+ N:32 W:years", "R:3/3/2021 K:to R:1/1/2000", "N:10 C:usd O:- N:25 C:usd", "N:0 O:- N:15", "T:11:30 K:to Z:EST", "N:90 W:minutes K:as W:hours", "N:255 K:to W:hex", "N:1619098200 K:to W:date"];
            let mut all = plain;
            for e in extra {
                all.push(corpus::tpl(e));
            }
            let n = all.len();
            f.push(Family::new(
                "separator-free-lines",
                Mode::Full,
                &format!("{} lines that contain no fractional or grouped literal (dates and date arithmetic, differences of dates, negative money and numbers, times, durations, radix and timestamp conversions, the separator-free corpus lines) under all 4 conventions: same value, and the printed forms agree once mapped back through their convention", n),
                move |ch| Some(Case::Line(ch.pick(&all).clone())),
            ));
        }
        {
            use crate::model::arith::Style;
            let nmax = tier.pick(3, 4);
            f.push(Family::new(
                "arith-trees",
                Mode::Full,
                &format!("the expression trees of C02 (all binary trees with 1..={} leaves x + - * /) over the literals [1234.5, 0.25, 1000, -2.5] (thorough: also 1000000.125), rendered with blanks and without, large literals plain and grouped, under all 4 conventions: the value of the reference evaluator under every convention", nmax),
                move |ch| {
                    let n = 1 + ch.choose(nmax);
                    let lits: &[&str] = if nmax > 3 { &["1234.5", "0.25", "1000", "-2.5", "1000000.125"] } else { &["1234.5", "0.25", "1000", "-2.5"] };
                    let e = crate::props::c02::tree(ch, n, lits);
                    let style = *ch.pick(&[Style::Minimal, Style::Tight]);
                    let g = ch.flag();
                    Some(Case::Tree(e, style, g))
                },
            ));
        }
        {
            let fixed: Vec<Vec<T>> = ["V:rate N:7.5 = N:40 NL V:rate N:7.5 O:* N:2", "V:lot N:1000g = N:12.5 NL V:lot N:1000g O:* N:4", "V:fee N:2.5 = N:100 C:usd NL V:fee N:2.5 K:to C:try", "V:cable N:0.75 = N:2.5 W:km NL V:cable N:0.75 K:to W:m", "N:1099511627776g O:/ N:1024g", "V:budget = N:2500000000000g NL V:budget O:/ N:1000g", "N:1234567890.255g O:+ N:1", "N:1234567890123g C:usd O:* N:2", "N:999999999999999g O:- N:999999999999998g", "N:1000000000000g W:mm K:to W:km", "N:500000g O:- N:100000g", "V:x = N:-120500g NL V:x O:* N:2", "N:3 O:* N:-250000g", "N:1.5 G:, N:2.5", "V:x = N:1200.5 G:, N:0.5 NL V:x O:* N:2"].iter().map(|t| corpus::tpl(t)).collect();
            let nf = fixed.len();
            f.push(Family::new(
                "names-with-literals-and-large-operands",
                Mode::Full,
                &format!("{} fixed lines under all 4 conventions: variables whose NAME contains a fractional or grouped literal ('rate 7,5 = 40 / rate 7,5 * 2', 'lot 1.000 = 12,5 / lot 1.000 * 4', with money and units), and operands of 10^9..10^15 written grouped (a grouped literal of 13 digits has 17 characters): same value under every convention", nf),
                move |ch| Some(Case::Line(ch.pick(&fixed).clone())),
            ));
        }
        f.push(Family::new(
            "suffixed-literals",
            Mode::Full,
            "literals that carry a thousands separator, a fraction and a magnitude suffix at once ('1.500,5k', '12.345,67k', '1,5k', '2.000k', '1.234,5678M') under all 4 conventions, alone, '+ 1', '/ 2' and through a variable: the intended number scaled by the suffix",
            move |ch| {
                let (c, grouped) = *ch.pick(&[("1500.5", true), ("12345.67", true), ("1.5", false), ("2000", true), ("1234.5678", true), ("1500.5", false)]);
                let (suf, mult) = *ch.pick(&[("k", 1e3), ("M", 1e6)]);
                let k = ch.choose(4);
                let form = ch.choose(4) as u8;
                Some(Case::Suffixed(c.to_string(), grouped, suf.to_string(), mult, k, form))
            },
        ));
        f.push(Family::new(
            "other-separators",
            Mode::Full,
            "conventions the setters accept beyond ',' and '.': (decimal, thousands) in [(',' '''), ('.' ' '), ('.' '_'), (',' ' '), (';' '.'), ('.' '''), ('·' ',')] x literals [1234.5, 1000000, 12.5, 0.25, 999] plain and grouped x (alone, 'L * 2', 'L km to m'): the literal denotes the intended number and the result prints with the configured separators",
            move |ch| {
                let (d, t) = *ch.pick(&[(",", "'"), (".", " "), (".", "_"), (",", " "), (";", "."), (".", "'"), ("·", ",")]);
                let c = *ch.pick(&["1234.5", "1000000", "12.5", "0.25", "999"]);
                let g = ch.flag();
                let int_len = c.split('.').next().unwrap().len();
                if g && int_len <= 3 {
                    return None;
                }
                let form = ch.choose(3) as u8;
                Some(Case::Other(d.to_string(), t.to_string(), c.to_string(), g, form))
            },
        ));
        let ds = tier.pick(3, 4);
        f.push(Family::new(
            "switched-conventions",
            Mode::Full,
            &format!("ONE calculator whose separators are switched with set_decimal_seperator / set_thousand_separator between evaluations: every sequence of 2..={} (convention, order of the two setter calls) steps; after every switch each of the 19 literals (plain and grouped) and three lines (a product, a currency conversion, a unit conversion through a variable) written in the current convention is evaluated: it denotes the intended number whatever was read before the switch", ds),
            move |ch| {
                let n = 2 + ch.choose(ds - 1);
                let mut seq = Vec::new();
                for _ in 0..n {
                    // 0..=3: decimal separator set first, 4..=7: thousands separator set first
                    seq.push(ch.choose(8));
                }
                Some(Case::Switched(seq))
            },
        ));
        f
    }

    fn exec(&self, ctx: &mut Ctx, case: &Case) -> Verdict {
        let convs = conventions();
        match case {
            Case::Switched(seq) => {
                let lits = ["0.5", "1.5", "0.25", "12.5", "0.001", "999.995", "1234.5", "1000", "1000000", "1234567.125", "-2.5", "-1234.5", "1234567890.255", "1099511627776", "2500000000000.5", "999999999999999", "-100000", "-250000.5", "+250000"];
                let mut calc = ctx.fresh(&Cfg::default());
                let mut v = Verdict { input: format!("switch {:?}", seq.iter().map(|k| format!("{}|{}{}", convs[*k % 4].dec, convs[*k % 4].thou, if *k >= 4 { " (thousands first)" } else { "" })).collect::<Vec<_>>()), class: "literal-compared", compared: true, expected: "every literal denotes the intended number after every switch".into(), ..Default::default() };
                let mut trace = String::new();
                for (step, k) in seq.iter().enumerate() {
                    let conv = &convs[*k % 4];
                    if *k >= 4 {
                        calc.set_thousand_separator(conv.thou.clone());
                        calc.set_decimal_seperator(conv.dec.clone());
                    } else {
                        calc.set_decimal_seperator(conv.dec.clone());
                        calc.set_thousand_separator(conv.thou.clone());
                    }
                    for c in lits.iter() {
                        for g in [false, true] {
                            let text = lit::render(c, conv, g);
                            let run = obs::eval(&calc, "en", &text);
                            v.evals += 1;
                            let want = Val::Number(lit::value(c), Base::Dec);
                            let ok = matches!(run.single(), Some(Slot::Ok { val, .. }) if obs::val_close(val, &want, 0.0));
                            if !ok {
                                if let Run::Panic(p) = &run {
                                    v.site = Some(p.site.clone());
                                }
                                v.expected = format!("{:?}", want);
                                v.observed = format!("{}step {} [{}|{}] {} -> {}", trace, step, conv.dec, conv.thou, text, run.brief());
                                v.violation = Some(format!("step {}: after switching the separators the literal {:?} does not denote the intended number", step, text));
                                return v;
                            }
                        }
                    }
                    // lines whose value is known: 2,5 * 1.000 ; 1,5 kb through a variable
                    let a = lit::render("2.5", conv, false);
                    let b = lit::render("1000", conv, true);
                    let c15 = lit::render("1.5", conv, false);
                    for (text, want) in [(format!("{} * {}", a, b), Val::Number(2500.0, Base::Dec)), (format!("v = {} kb\nv to byte", c15), Val::Unit(1536.0, "memory".into(), 2))] {
                        let run = obs::eval(&calc, "en", &text);
                        v.evals += 1;
                        let ok = match &run {
                            Run::Done(o) => matches!(o.slots.last(), Some(Slot::Ok { val, .. }) if obs::val_close(val, &want, 1e-9)),
                            _ => false,
                        };
                        if !ok {
                            v.expected = format!("{:?}", want);
                            v.observed = format!("{}step {} [{}|{}] {} -> {}", trace, step, conv.dec, conv.thou, text.replace('\n', " \\n "), run.brief());
                            v.violation = Some(format!("step {}: after switching the separators the line {:?} has another value", step, text));
                            return v;
                        }
                    }
                    trace.push_str(&format!("[{}|{}] ok; ", conv.dec, conv.thou));
                }
                v.observed = trace;
                v
            }
            Case::Tree(e, style, g) => {
                use crate::model::arith;
                let want = arith::eval(e);
                let mut v = Verdict { class: "value-compared", compared: true, expected: format!("Number({:?}) under every convention", want), ..Default::default() };
                let mut seen = Vec::new();
                for conv in convs.iter() {
                    let conv = if *g { conv.clone().grouped() } else { conv.clone() };
                    let text = arith::render(e, *style, &conv);
                    if v.input.is_empty() {
                        v.input = text.clone();
                    }
                    if arith::text_has_date_triple(&text) {
                        return Verdict::pass(text, "excluded-date-triple", false, String::new(), 0);
                    }
                    let run = obs::eval(ctx.calc(&Cfg::seps(&conv.dec, &conv.thou)), "en", &text);
                    v.evals += 1;
                    seen.push(format!("[{}|{}] {} -> {}", conv.dec, conv.thou, text, run.brief()));
                    let ok = matches!(run.single(), Some(Slot::Ok { val: Val::Number(x, _), .. }) if obs::close(*x, want, 1e-12));
                    if !ok {
                        if let Run::Panic(p) = &run {
                            v.site = Some(p.site.clone());
                        }
                        v.violation = Some(format!("wrong value under the convention [{}|{}]", conv.dec, conv.thou));
                        break;
                    }
                }
                v.observed = seen.join(" ;; ");
                v
            }
            Case::Suffixed(c, g, suf, mult, k, form) => {
                let conv = &convs[*k];
                let l = format!("{}{}", lit::render(c, conv, *g), suf);
                let x = lit::value(c) * mult;
                let (text, want) = match form {
                    0 => (l.clone(), x),
                    1 => (format!("{} + 1", l), x + 1.0),
                    2 => (format!("{} / 2", l), x / 2.0),
                    _ => (format!("budget = {}\nbudget / 2", l), x / 2.0),
                };
                let run = obs::eval(ctx.calc(&Cfg::seps(&conv.dec, &conv.thou)), "en", &text);
                let mut v = Verdict { input: format!("[{}|{}] {}", conv.dec, conv.thou, text.replace('\n', " \\n ")), class: "literal-compared", compared: true, expected: format!("Number({:?})", want), observed: run.brief(), evals: 1, ..Default::default() };
                match &run {
                    Run::Panic(p) => {
                        v.violation = Some(format!("panic: {}", p.message));
                        v.site = Some(p.site.clone());
                    }
                    Run::Done(o) => match o.slots.last() {
                        Some(Slot::Ok { val: Val::Number(y, _), .. }) if obs::close(*y, want, 1e-12) => {}
                        _ => v.violation = Some("the suffixed literal does not denote the intended number under its convention".into()),
                    },
                }
                v
            }
            Case::Other(d, t, c, g, form) => {
                let conv = Conv::new(d, t);
                let l = lit::render(c, &conv, *g);
                let x = lit::value(c);
                let (text, want) = match form {
                    0 => (l.clone(), Val::Number(x, Base::Dec)),
                    1 => (format!("{} * 2", l), Val::Number(2.0 * x, Base::Dec)),
                    _ => (format!("{} km to m", l), Val::Unit(1000.0 * x, "metric-length".into(), 4)),
                };
                let run = obs::eval(ctx.calc(&Cfg::seps(d, t)), "en", &text);
                let mut v = Verdict { input: format!("[{}|{}] {}", d, t, text), class: "literal-compared", compared: true, expected: format!("{:?}", want), observed: run.brief(), evals: 1, ..Default::default() };
                match &run {
                    Run::Panic(p) => {
                        v.violation = Some(format!("panic: {}", p.message));
                        v.site = Some(p.site.clone());
                    }
                    _ => match run.single() {
                        Some(Slot::Ok { val, out }) if obs::val_close(val, &want, 1e-12) => {
                            // printing: the integer part is grouped with the configured separator
                            if want_grouped(&want) && !t.is_empty() && !out.contains(t.as_str()) {
                                v.violation = Some("the result is not printed with the configured thousands separator".into());
                            }
                        }
                        _ => v.violation = Some("the literal does not denote the intended number under its convention".into()),
                    },
                }
                v
            }
            Case::Literal(c, g, k) => {
                let conv = &convs[*k];
                let text = lit::render(c, conv, *g);
                let run = obs::eval(ctx.calc(&Cfg::seps(&conv.dec, &conv.thou)), "en", &text);
                let want = Val::Number(lit::value(c), Base::Dec);
                let mut v = Verdict { input: format!("[{}|{}] {}", conv.dec, conv.thou, text), class: "literal-compared", compared: true, expected: format!("{:?}", want), observed: run.brief(), evals: 1, ..Default::default() };
                match &run {
                    Run::Panic(p) => {
                        v.violation = Some(format!("panic: {}", p.message));
                        v.site = Some(p.site.clone());
                    }
                    _ => match run.single() {
                        Some(Slot::Ok { val, .. }) if obs::val_close(val, &want, 0.0) => {}
                        _ => v.violation = Some("the literal does not denote the intended number under its convention".into()),
                    },
                }
                v
            }
            Case::Line(ts) => {
                let mut results: Vec<(String, Run)> = Vec::new();
                for conv in convs.iter() {
                    let text = corpus::render(ts, conv);
                    let run = obs::eval(ctx.calc(&Cfg::seps(&conv.dec, &conv.thou)), "en", &text);
                    results.push((format!("[{}|{}] {}", conv.dec, conv.thou, text.replace('\n', " \\n ")), run));
                }
                let mut v = Verdict { input: results[0].0.clone(), class: "conventions-compared", compared: true, expected: "same value under every convention".into(), evals: 4, ..Default::default() };
                v.observed = results.iter().map(|(t, r)| format!("{} -> {}", t, r.brief())).collect::<Vec<_>>().join(" ;; ");
                let last_val = |r: &Run| -> Option<Val> {
                    match r {
                        Run::Done(o) => match o.slots.last() {
                            Some(Slot::Ok { val, .. }) => Some(val.clone()),
                            _ => None,
                        },
                        _ => None,
                    }
                };
                for (_, r) in results.iter() {
                    if let Run::Panic(p) = r {
                        v.violation = Some(format!("panic: {}", p.message));
                        v.site = Some(p.site.clone());
                        return v;
                    }
                }
                // the printed forms agree once each is mapped back through its own convention
                let canon_out = |r: &Run, conv: &Conv| -> Option<String> {
                    match r {
                        Run::Done(o) => match o.slots.last() {
                            Some(Slot::Ok { out, .. }) => {
                                // only separators that stand between two digits belong to a number
                                // (the symbol of BGN, 'лв.', ends with a point of its own)
                                let cs: Vec<char> = out.chars().collect();
                                let mut t = String::new();
                                for (i, c) in cs.iter().enumerate() {
                                    let between = i > 0 && i + 1 < cs.len() && cs[i - 1].is_ascii_digit() && cs[i + 1].is_ascii_digit();
                                    let one = c.to_string();
                                    if between && !conv.thou.is_empty() && one == conv.thou {
                                        continue;
                                    }
                                    if between && one == conv.dec {
                                        t.push('.');
                                    } else {
                                        t.push(*c);
                                    }
                                }
                                Some(t)
                            }
                            _ => None,
                        },
                        _ => None,
                    }
                };
                let first = last_val(&results[0].1);
                match first {
                    None => {
                        // not evaluable under the default convention: then under no convention
                        if let Some((t, _)) = results.iter().skip(1).find(|(_, r)| last_val(r).is_some()) {
                            v.violation = Some(format!("the line evaluates under one separator convention and not under another: {}", t));
                        } else {
                            v.class = "not-evaluable";
                            v.compared = false;
                        }
                    }
                    Some(a) => {
                        for (t, r) in results.iter().skip(1) {
                            match last_val(r) {
                                Some(b) if obs::val_close(&a, &b, 1e-9) => {}
                                _ => {
                                    v.violation = Some(format!("value differs between separator conventions: {}", t));
                                    return v;
                                }
                            }
                        }
                        // printing: same digits, sign, symbols and words under every convention (only for
                        // values whose printed form has no thousands separator inside words: all kinds)
                        let o0 = canon_out(&results[0].1, &convs[0]);
                        for (k, (t, r)) in results.iter().enumerate().skip(1) {
                            let ok = canon_out(r, &convs[k]);
                            // a convention with the same character in both roles cannot be mapped back; the four used here are distinct
                            if o0.is_some() && ok != o0 {
                                v.violation = Some(format!("printed form differs between separator conventions beyond the separators themselves: {} prints {:?}, the first convention prints {:?}", t, ok, o0));
                                return v;
                            }
                        }
                    }
                }
                v
            }
        }
    }

    fn rule(&self) -> String {
        "cases are all fillings of the numeric slots of the corpus lines with fractional / grouped literals, plus every literal alone under every convention; a line case renders and evaluates the same tagged line under all four conventions (covering all 12 ordered pairs) and compares the values; non-trivial = the line evaluates under the default convention and was compared; distinct = distinct rendered line".into()
    }
}
