//! Literal rendering under a separator convention.

use serde::{Deserialize, Serialize};

/// A separator convention for *input* literals (what the reader admits: '.' ',' or nothing).
#[derive(Clone, Debug, PartialEq, Eq, Hash, Serialize, Deserialize)]
pub struct Conv {
    pub dec: String,
    pub thou: String,
    /// expression renderers (model::arith) group every literal whose integer part has more than
    /// three digits
    #[serde(default)]
    pub group: bool,
}

impl Conv {
    pub fn new(dec: &str, thou: &str) -> Conv {
        Conv { dec: dec.into(), thou: thou.into(), group: false }
    }
    pub fn grouped(mut self) -> Conv {
        self.group = true;
        self
    }
    pub fn default_lib() -> Conv {
        Conv::new(",", ".")
    }
}

/// Render a canonical decimal string ("-1234.5", dot decimal, no grouping) under a convention.
/// `group` inserts the thousands separator into the integer part.
pub fn render(canon: &str, conv: &Conv, group: bool) -> String {
    let (sign, rest) = if let Some(r) = canon.strip_prefix('-') {
        ("-", r)
    } else if let Some(r) = canon.strip_prefix('+') {
        ("+", r)
    } else {
        ("", canon)
    };
    let (int, frac) = match rest.find('.') {
        Some(i) => (&rest[..i], Some(&rest[i + 1..])),
        None => (rest, None),
    };
    let mut out = String::from(sign);
    if group && !conv.thou.is_empty() && int.len() > 3 {
        let first = int.len() % 3;
        if first > 0 {
            out.push_str(&int[..first]);
        }
        let mut i = first;
        while i < int.len() {
            if i > 0 {
                out.push_str(&conv.thou);
            }
            out.push_str(&int[i..i + 3]);
            i += 3;
        }
    } else {
        out.push_str(int);
    }
    if let Some(f) = frac {
        out.push_str(&conv.dec);
        out.push_str(f);
    }
    out
}

/// The f64 a canonical decimal string denotes.
pub fn value(canon: &str) -> f64 {
    canon.parse::<f64>().unwrap()
}
