//! Tables read from the repository's own config.json at run time: they are the
//! specification for the properties stated relative to "the configured table".

use serde_json::Value;
use std::collections::BTreeMap;
use std::sync::OnceLock;

pub struct Currency {
    pub code: String,
    pub symbol: String,
    pub symbol_on_left: bool,
    pub space: bool,
    pub digits: u8,
}

pub struct Spec {
    pub json: Value,
    /// lower-case code -> rate
    pub rates: BTreeMap<String, f64>,
    /// lower-case code -> record
    pub currencies: BTreeMap<String, Currency>,
    /// alias (lower-case word or symbol) -> lower-case code
    pub currency_alias: BTreeMap<String, String>,
    /// zone name -> offset in minutes
    pub zones: BTreeMap<String, i32>,
    pub languages: Vec<String>,
}

pub fn repo_dir() -> String {
    std::env::var("REPO_DIR").unwrap_or_else(|_| "/repo".to_string())
}

static SPEC: OnceLock<Spec> = OnceLock::new();

pub fn spec() -> &'static Spec {
    SPEC.get_or_init(|| {
        let path = format!("{}/src/json/config.json", repo_dir());
        let text = std::fs::read_to_string(&path).unwrap_or_else(|e| panic!("cannot read {}: {}", path, e));
        let json: Value = serde_json::from_str(&text).expect("config.json does not parse");
        let mut rates = BTreeMap::new();
        for (k, v) in json["currency_rates"].as_object().unwrap() {
            rates.insert(k.to_lowercase(), v.as_f64().unwrap());
        }
        let mut currencies = BTreeMap::new();
        for (k, v) in json["currencies"].as_object().unwrap() {
            currencies.insert(
                k.to_lowercase(),
                Currency {
                    code: v["code"].as_str().unwrap().to_string(),
                    symbol: v["symbol"].as_str().unwrap().to_string(),
                    symbol_on_left: v["symbolOnLeft"].as_bool().unwrap(),
                    space: v["spaceBetweenAmountAndSymbol"].as_bool().unwrap(),
                    digits: v["decimalDigits"].as_u64().unwrap() as u8,
                },
            );
        }
        let mut currency_alias = BTreeMap::new();
        for (k, v) in json["currency_alias"].as_object().unwrap() {
            currency_alias.insert(k.to_string(), v.as_str().unwrap().to_lowercase());
        }
        let mut zones = BTreeMap::new();
        for (k, v) in json["timezones"].as_object().unwrap() {
            zones.insert(k.to_string(), v.as_i64().unwrap() as i32);
        }
        let languages = json["languages"].as_object().unwrap().keys().cloned().collect();
        Spec { json, rates, currencies, currency_alias, zones, languages }
    })
}

impl Spec {
    pub fn lang(&self, l: &str) -> &Value {
        &self.json["languages"][l]
    }
    /// all words of a language that are keywords of some kind (used to avoid collisions)
    pub fn words(&self, l: &str) -> Vec<String> {
        let mut w = Vec::new();
        let lg = self.lang(l);
        for key in ["long_months", "short_months", "constant_pair", "alias"] {
            if let Some(o) = lg[key].as_object() {
                w.extend(o.keys().cloned());
            }
        }
        if let Some(o) = lg["word_group"].as_object() {
            for v in o.values() {
                for x in v.as_array().unwrap() {
                    w.push(x.as_str().unwrap().to_string());
                }
            }
        }
        w
    }
    /// rated currencies, sorted by code
    pub fn rated(&self) -> Vec<String> {
        self.rates.keys().cloned().collect()
    }
}

impl Spec {
    /// every lower-case word that means something to the tokenizer besides being a zone name
    pub fn reserved_words(&self) -> std::collections::BTreeSet<String> {
        let mut r = std::collections::BTreeSet::new();
        for c in self.currencies.keys() {
            r.insert(c.clone());
        }
        for a in self.currency_alias.keys() {
            r.insert(a.to_lowercase());
        }
        for l in self.languages.iter() {
            for w in self.words(l) {
                r.insert(w.to_lowercase());
            }
            // literal words of the rule patterns
            if let Some(rules) = self.lang(l)["rules"].as_object() {
                for rule in rules.values() {
                    for p in rule["rules"].as_array().unwrap() {
                        for w in p.as_str().unwrap().split(|c: char| !c.is_alphabetic()) {
                            if !w.is_empty() && w.chars().all(|c| c.is_lowercase()) {
                                r.insert(w.to_string());
                            }
                        }
                    }
                }
            }
        }
        for t in self.json["types"].as_array().unwrap() {
            for it in t["items"].as_array().unwrap() {
                for n in it["names"].as_array().unwrap() {
                    r.insert(n.as_str().unwrap().to_lowercase());
                }
                for p in it["parse"].as_array().unwrap() {
                    let w = p.as_str().unwrap().rsplit(' ').next().unwrap();
                    let w = w.trim_start_matches("{TEXT:type:").trim_end_matches('}');
                    r.insert(w.to_lowercase());
                }
            }
        }
        for w in ["am", "pm", "gmt"] {
            r.insert(w.to_string());
        }
        r
    }

    /// zone names the zone syntax can express ([A-Z]{2,4}) and that mean nothing else
    pub fn usable_zones(&self) -> Vec<(String, i32)> {
        let reserved = self.reserved_words();
        self.zones
            .iter()
            .filter(|(n, _)| n.len() >= 2 && n.len() <= 4 && n.chars().all(|c| c.is_ascii_uppercase()))
            .filter(|(n, _)| !reserved.contains(&n.to_lowercase()) || n.as_str() == "GMT")
            .map(|(n, o)| (n.clone(), *o))
            .collect()
    }
}
