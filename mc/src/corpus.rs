//! The tagged corpus shared by the relational properties (C08, C15, C16, C19).
//!
//! A line is a list of tagged tokens; renderers and rewriters work on the tags, so "change the
//! case of every currency code" or "write every literal in another separator convention" is
//! exact, not a regex guess.

use crate::lit::{self, Conv};
use serde::{Deserialize, Serialize};

#[derive(Clone, Debug, PartialEq, Serialize, Deserialize)]
pub enum T {
    /// number literal: canonical decimal, grouped?
    Num(String, bool),
    /// percent literal: canonical decimal, prefix form ("%10")?
    Pct(String, bool),
    /// money with the symbol in front: symbol, canonical decimal, grouped?
    SymNum(String, String, bool),
    Op(char),
    L,
    R,
    /// connective keyword (to, of, on, off, as, in, into, at, is, what)
    Kw(String),
    /// currency code or alias word
    Cur(String),
    Month(String),
    Zone(String),
    /// one word of a variable name
    Var(String),
    /// any other word (unit names, duration words, am/pm, hex ...): letter case is not varied
    Word(String),
    /// clock literal
    Time(String),
    /// literal text glued to the previous token (e.g. the comma of "dec 15, 2020")
    Glue(String),
    /// d/m/y date written with slashes (kept as one token so that blanks are not inserted)
    Raw(String),
    NL,
}

/// mini markup: tokens separated by blanks, `X:payload`
pub fn tpl(s: &str) -> Vec<T> {
    let mut out = Vec::new();
    for w in s.split(' ') {
        if w.is_empty() {
            continue;
        }
        let (k, p) = match w.split_once(':') {
            Some((k, p)) if k.len() <= 2 && k.chars().all(|c| c.is_ascii_uppercase()) => (k, p),
            _ => ("", w),
        };
        let t = match k {
            "N" => {
                let g = p.ends_with('g');
                T::Num(p.trim_end_matches('g').to_string(), g)
            }
            "P" => T::Pct(p.to_string(), false),
            "PP" => T::Pct(p.to_string(), true),
            "S" => {
                let (sym, n) = p.split_once(':').unwrap();
                let g = n.ends_with('g');
                T::SymNum(sym.to_string(), n.trim_end_matches('g').to_string(), g)
            }
            "O" => T::Op(p.chars().next().unwrap()),
            "K" => T::Kw(p.to_string()),
            "C" => T::Cur(p.to_string()),
            "M" => T::Month(p.to_string()),
            "Z" => T::Zone(p.to_string()),
            "V" => T::Var(p.to_string()),
            "W" => T::Word(p.to_string()),
            "T" => T::Time(p.to_string()),
            "G" => T::Glue(p.to_string()),
            "R" => T::Raw(p.to_string()),
            _ => match p {
                "(" => T::L,
                ")" => T::R,
                "NL" => T::NL,
                "=" => T::Op('='),
                _ => panic!("bad corpus token {:?}", w),
            },
        };
        out.push(t);
    }
    out
}

pub fn tok_text(t: &T, conv: &Conv) -> String {
    match t {
        T::Num(c, g) => lit::render(c, conv, *g),
        T::Pct(c, prefix) => {
            if *prefix {
                format!("%{}", lit::render(c, conv, false))
            } else {
                format!("{}%", lit::render(c, conv, false))
            }
        }
        T::SymNum(s, c, g) => format!("{}{}", s, lit::render(c, conv, *g)),
        T::Op(c) => c.to_string(),
        T::L => "(".into(),
        T::R => ")".into(),
        T::Kw(w) | T::Cur(w) | T::Month(w) | T::Zone(w) | T::Var(w) | T::Word(w) | T::Time(w) | T::Glue(w) | T::Raw(w) => w.clone(),
        T::NL => "\n".into(),
    }
}

/// Render with `gap(i)` blanks in front of token i (i >= 1); structural gluing is kept.
pub fn render_with(ts: &[T], conv: &Conv, gap: &dyn Fn(usize) -> usize, lead: usize, trail: usize) -> String {
    let mut s = " ".repeat(lead);
    let mut prev: Option<&T> = None;
    for (i, t) in ts.iter().enumerate() {
        if let Some(p) = prev {
            let glue = matches!(t, T::Glue(_) | T::R | T::NL) || matches!(p, T::L | T::NL);
            if !glue {
                s.push_str(&" ".repeat(gap(i).max(1)));
            }
        }
        s.push_str(&tok_text(t, conv));
        prev = Some(t);
    }
    s.push_str(&" ".repeat(trail));
    s
}

pub fn render(ts: &[T], conv: &Conv) -> String {
    render_with(ts, conv, &|_| 1, 0, 0)
}

pub fn has_fraction_or_group(ts: &[T]) -> bool {
    ts.iter().any(|t| match t {
        T::Num(c, g) | T::SymNum(_, c, g) => c.contains('.') || *g,
        T::Pct(c, _) => c.contains('.'),
        _ => false,
    })
}

/// number of numeric slots that can be re-filled
pub fn num_slots(ts: &[T]) -> Vec<usize> {
    ts.iter().enumerate().filter(|(_, t)| matches!(t, T::Num(..) | T::SymNum(..))).map(|(i, _)| i).collect()
}

pub fn with_num(ts: &[T], idx: usize, canon: &str, grouped: bool) -> Vec<T> {
    let mut v = ts.to_vec();
    v[idx] = match &v[idx] {
        T::Num(..) => T::Num(canon.to_string(), grouped),
        T::SymNum(s, ..) => T::SymNum(s.clone(), canon.to_string(), grouped),
        other => other.clone(),
    };
    v
}

/// The corpus: evaluable lines of every feature family, English.
pub fn lines() -> Vec<(&'static str, Vec<T>)> {
    let l = |tag: &'static str, s: &str| (tag, tpl(s));
    vec![
        // arithmetic
        l("arith", "N:1.5 O:+ N:2 O:* N:3"),
        l("arith", "( N:1000g O:+ N:2.5 ) O:* N:3"),
        l("arith", "N:7 O:- N:-3"),
        l("arith", "N:12.5 O:/ N:4 O:- N:0.25"),
        l("arith", "N:2 O:* ( N:3.5 O:+ N:1234.5g )"),
        // percent phrases
        l("percent", "N:200 O:+ P:10"),
        l("percent", "N:1234.5 O:- P:2.5"),
        l("percent", "P:10 K:of N:200"),
        l("percent", "P:6 K:off N:40"),
        l("percent", "PP:5 K:on N:40.5"),
        l("percent", "N:15 K:is K:what O:% K:of N:60"),
        l("percent", "N:20 K:is P:10 K:of K:what"),
        l("percent", "N:12.5 C:usd O:+ P:10"),
        // money
        l("money", "N:10 C:usd K:to C:try"),
        l("money", "N:12.5 C:eur O:+ N:3 C:usd"),
        l("money", "S:$:1000.5g K:to C:eur"),
        l("money", "N:2.5 C:usd C:try"),
        l("money", "N:10 C:usd O:/ N:4"),
        l("money", "N:10 C:dollar K:in C:euro"),
        l("money", "N:1234.5 C:gbp O:- N:0.5 C:jpy"),
        // units
        l("unit", "N:1.5 W:km K:to W:m"),
        l("unit", "N:2.5 W:kg K:to W:lb"),
        l("unit", "N:1234.5 W:mb K:to W:gb"),
        l("unit", "N:1.5 W:inch K:to W:cm"),
        l("unit", "N:0.25 W:mile K:to W:km"),
        l("unit", "N:12.5 W:m O:+ N:3 W:cm"),
        l("unit", "N:0.001 W:tonne K:to W:oz"),
        // dates
        l("date", "N:15 M:december N:2020 O:+ N:10 W:days"),
        l("date", "M:dec N:15 G:, N:2020 O:- N:2 W:weeks"),
        l("date", "R:1/2/2021 K:to N:15 M:march N:2021"),
        l("date", "N:10 M:june O:+ N:3 W:weeks"),
        l("date", "N:28 M:feb N:2020 O:+ N:1 W:month"),
        // durations
        l("duration", "N:1 W:hour N:30 W:minutes K:as W:minutes"),
        l("duration", "N:2 W:days O:+ N:3 W:hours"),
        l("duration", "N:90 W:seconds"),
        // times and zones
        l("time", "T:11:30 Z:EST K:to Z:CET"),
        l("time", "T:11:30 K:to Z:EST"),
        l("time", "T:11:30 O:+ N:1 W:hour N:30 W:minutes"),
        l("time", "T:3:35 W:am O:+ N:7 W:hours N:15 W:minutes"),
        l("time", "T:11:30 W:pm O:+ N:1 W:hour"),
        l("time", "T:1:20:30 W:pm K:to Z:CET"),
        l("time", "T:10:00 K:to T:13:45"),
        // bases and unix time
        l("base", "N:255 K:to W:hex"),
        l("base", "R:0xFF O:+ N:1"),
        l("base", "N:10 K:to W:binary"),
        l("unix", "N:1619098200 K:to W:date"),
        l("unix", "N:15 M:december N:2020 K:as W:unix"),
        // variables
        l("var", "V:price = N:1234.5g C:usd NL V:price K:to C:eur"),
        l("var", "V:x = N:2.5 NL V:x O:* N:2"),
        l("var", "V:tax V:rate = P:18 NL N:200 O:+ V:tax V:rate"),
        l("var", "V:w = N:1.5 W:km NL V:w K:to W:m"),
    ]
}
