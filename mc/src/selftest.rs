//! Self-tests run before every exploration.

use crate::obs::{self, Run, Slot, Val};
use crate::seam;
use smartcalc::SmartCalc;

/// `today` must follow the harness clock: evaluate it under two instants.
pub fn clock_seam() -> Result<(), String> {
    let calc = seam::guarded(SmartCalc::default).map_err(|p| format!("SmartCalc::default() panicked: {}", p.message))?;
    let saved = seam::get_now();
    let mut got = Vec::new();
    // 2024-02-29T12:00:00Z and 2025-12-31T23:59:59Z
    for (now, y, m, d) in [(1_709_208_000i64, 2024, 2, 29), (1_767_225_599i64, 2025, 12, 31)] {
        seam::set_now(now);
        let r = obs::eval(&calc, "en", "today");
        match r.single() {
            Some(Slot::Ok { val: Val::Date { y: yy, m: mm, d: dd, .. }, .. }) if (*yy, *mm, *dd) == (y, m, d) => got.push(true),
            _ => {
                seam::set_now(saved);
                return Err(format!("'today' under clock {} gave {}", now, r.brief()));
            }
        }
    }
    seam::set_now(saved);
    // determinism: the same line twice gives the same observation
    let a = obs::eval(&calc, "en", "1 + 2 * 3");
    let b = obs::eval(&calc, "en", "1 + 2 * 3");
    if a.brief() != b.brief() {
        return Err("same line evaluated twice differs".into());
    }
    match (a, got.len()) {
        (Run::Done(_), 2) => Ok(()),
        _ => Err("unexpected".into()),
    }
}
