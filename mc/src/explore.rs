//! The engine: exhaustive enumeration of a choice tree, executed on the real code.
//!
//! A *generator* is a pure function `gen(&mut Chooser) -> Option<Case>` that makes a finite
//! sequence of `choose(n)` calls.  The driver enumerates **all** choice vectors in
//! lexicographic order (`Mode::Full`) or all vectors with at most k non-zero choices
//! (`Mode::Deviations(k)`), never samples, and hands every produced case to a pool of worker
//! threads which run the real code and the oracle (`exec`).  Counting is done by the driver:
//! `states` = distinct nodes of the choice tree, `transitions` = edges, `executions` = leaves
//! that produced a case.

use crate::seam;
use std::collections::HashSet;
use std::hash::{Hash, Hasher};
use std::sync::atomic::{AtomicBool, AtomicU64, Ordering};
use std::sync::mpsc::sync_channel;
use std::sync::{Arc, Mutex};

#[derive(Clone, Copy, Debug)]
pub enum Mode {
    Full,
    Deviations(usize),
}

pub struct Chooser {
    prefix: Vec<usize>,
    pos: usize,
    pub trail: Vec<(usize, usize)>,
    budget: Option<usize>,
    used: usize,
}

impl Chooser {
    fn new(prefix: Vec<usize>, budget: Option<usize>) -> Chooser {
        Chooser { prefix, pos: 0, trail: Vec::new(), budget, used: 0 }
    }
    /// A choice point with `n` alternatives, always fully enumerated.
    pub fn choose(&mut self, n: usize) -> usize {
        self.choose_inner(n, false)
    }
    /// A *deviation* point: alternative 0 is the default; under `Mode::Deviations(k)` at most k
    /// such points take a non-default alternative in one execution (all of them under Full).
    pub fn choose_dev(&mut self, n: usize) -> usize {
        self.choose_inner(n, true)
    }
    pub fn pick_dev<'a, T>(&mut self, xs: &'a [T]) -> &'a T {
        &xs[self.choose_dev(xs.len())]
    }
    fn choose_inner(&mut self, n: usize, dev: bool) -> usize {
        assert!(n >= 1, "choice point with no alternatives");
        let exhausted = dev && matches!(self.budget, Some(b) if self.used >= b);
        let arity = if exhausted { 1 } else { n };
        let c = if self.pos < self.prefix.len() {
            let c = self.prefix[self.pos];
            // A divergence while replaying a prefix is a hard error.
            assert!(c < arity, "replay divergence at choice point {}: {} !< {}", self.pos, c, arity);
            c
        } else {
            0
        };
        if c != 0 && dev {
            self.used += 1;
        }
        self.pos += 1;
        self.trail.push((c, arity));
        c
    }
    pub fn pick<'a, T>(&mut self, xs: &'a [T]) -> &'a T {
        &xs[self.choose(xs.len())]
    }
    pub fn flag(&mut self) -> bool {
        self.choose(2) == 1
    }
}

/// What the oracle said about one case.
#[derive(Clone, Debug, Default)]
pub struct Verdict {
    /// canonical rendering of the input (used for distinct counting and known-finding matching)
    pub input: String,
    /// oracle class, e.g. "value-compared", "unspecified", "rejected-as-required"
    pub class: &'static str,
    /// true if the reference model made a definite prediction that was compared with the impl
    pub compared: bool,
    pub expected: String,
    pub observed: String,
    /// Some(what) if the property is violated on this case
    pub violation: Option<String>,
    /// panic site if the violation is a panic
    pub site: Option<String>,
    /// number of real evaluations this case performed
    pub evals: u64,
    /// merged breadth-first layers only: canonical key of the state the history ends in
    /// (None: the state lies outside the layer's state constraint and is not expanded)
    pub key: Option<String>,
}

impl Verdict {
    pub fn pass(input: String, class: &'static str, compared: bool, observed: String, evals: u64) -> Verdict {
        Verdict { input, class, compared, observed, evals, ..Default::default() }
    }
}

#[derive(Clone, Debug)]
pub struct Violation<C> {
    pub family: String,
    pub case: C,
    pub verdict: Verdict,
}

#[derive(Default, Clone, Debug)]
pub struct FamilyStats {
    pub name: String,
    pub mode: String,
    pub bounds: String,
    pub states: u64,
    pub transitions: u64,
    pub executions: u64,
    pub pruned: u64,
    pub exhaustive: bool,
    pub wall_s: f64,
    /// true for a merged breadth-first layer (states = distinct merged states, transitions = edges executed)
    pub merged: bool,
}

pub struct RunStats<C> {
    pub families: Vec<FamilyStats>,
    pub evaluations: u64,
    pub compared: u64,
    pub distinct_inputs: u64,
    pub distinct_compared: u64,
    pub distinct_outcomes: u64,
    pub classes: std::collections::BTreeMap<String, u64>,
    pub violations_total: u64,
    /// violations no known finding matches (exact count) and a bounded set of witnesses
    pub unknown_total: u64,
    pub violations: Vec<Violation<C>>,
    /// exact number of violations matched per known finding
    pub known: std::collections::BTreeMap<String, u64>,
    /// unlisted violations per kind of failure (family|site|what)
    pub buckets: std::collections::BTreeMap<String, u64>,
    pub samples: Vec<serde_json::Value>,
    pub caps_hit: Vec<String>,
    pub calculators_built: u64,
}

pub struct Family<C> {
    pub name: String,
    pub mode: Mode,
    pub bounds: String,
    pub gen: Box<dyn Fn(&mut Chooser) -> Option<C> + Send>,
}

impl<C> Family<C> {
    pub fn new(name: &str, mode: Mode, bounds: &str, gen: impl Fn(&mut Chooser) -> Option<C> + Send + 'static) -> Family<C> {
        Family { name: name.to_string(), mode, bounds: bounds.to_string(), gen: Box::new(gen) }
    }
}

/// A merged breadth-first layer over operation histories.  A node is the shortest history (list of
/// operation indices) that reached a state; every (state, operation) edge is executed on the real
/// code by replaying that history from scratch plus the operation; `exec` checks the oracle along
/// the whole history and returns the canonical key of the state reached (`Verdict::key`): model
/// state + observational fingerprint of the implementation.  Histories whose key was seen before
/// are not expanded again (merging can hide differences in hidden implementation state, never
/// invent a violation); a key of None means "outside the state constraint": checked, not expanded.
pub struct Bfs<C> {
    pub name: String,
    pub bounds: String,
    pub nops: usize,
    pub max_depth: usize,
    pub make: Arc<dyn Fn(&[usize]) -> C + Send + Sync>,
}

impl<C> Bfs<C> {
    pub fn new(name: &str, bounds: &str, nops: usize, max_depth: usize, make: impl Fn(&[usize]) -> C + Send + Sync + 'static) -> Bfs<C> {
        Bfs { name: name.to_string(), bounds: bounds.to_string(), nops, max_depth, make: Arc::new(make) }
    }
}

fn h64<T: Hash + ?Sized>(t: &T) -> u64 {
    let mut h = std::collections::hash_map::DefaultHasher::new();
    t.hash(&mut h);
    h.finish()
}

pub const MAX_STORED_VIOLATIONS: usize = 4000;
pub const PER_BUCKET: u64 = 30;

/// In-flight slot per worker for the watchdog: (start time, description).
pub struct Flight {
    pub since: AtomicU64,
    pub what: Mutex<String>,
}

pub struct Limits {
    /// stop generating after this many seconds (0 = no cap); reported as a cap
    pub time_cap_s: f64,
    /// per-case horizon for the watchdog
    pub horizon_s: f64,
}

pub fn threads() -> usize {
    std::env::var("VERIF_THREADS").ok().and_then(|s| s.parse().ok()).unwrap_or_else(|| {
        std::thread::available_parallelism().map(|n| n.get()).unwrap_or(8).min(16)
    })
}

/// Run all families.  `mk_ctx` builds the per-thread context inside the worker thread
/// (calculators are `!Send`).  `exec` runs the real code and the oracle.
pub fn run<C, X>(
    families: Vec<Family<C>>,
    bfs_layers: Vec<Bfs<C>>,
    limits: &Limits,
    seed: u64,
    mk_ctx: impl Fn() -> X + Sync,
    exec: impl Fn(&mut X, &C) -> Verdict + Sync,
    built: impl Fn(&X) -> u64 + Sync,
    to_json: impl Fn(&C) -> serde_json::Value + Sync,
    on_hang: impl Fn(&str) + Sync,
    // known-finding matcher, applied to every violation when it is found: Some(finding id)
    classify: impl Fn(&Violation<C>) -> Option<String> + Sync,
) -> RunStats<C>
where
    C: Send + Clone + 'static,
{
    let nthreads = threads();
    let mut fam_stats = Vec::new();
    let evaluations = AtomicU64::new(0);
    let compared = AtomicU64::new(0);
    let violations_total = AtomicU64::new(0);
    let calculators = AtomicU64::new(0);
    let violations: Mutex<Vec<Violation<C>>> = Mutex::new(Vec::new());
    let known: Mutex<std::collections::BTreeMap<String, u64>> = Mutex::new(Default::default());
    let unknown_total = AtomicU64::new(0);
    let buckets: Mutex<std::collections::HashMap<String, u64>> = Mutex::new(Default::default());
    let inputs: Mutex<HashSet<u64>> = Mutex::new(HashSet::new());
    let inputs_cmp: Mutex<HashSet<u64>> = Mutex::new(HashSet::new());
    let outcomes: Mutex<HashSet<u64>> = Mutex::new(HashSet::new());
    let classes: Mutex<std::collections::BTreeMap<String, u64>> = Mutex::new(Default::default());
    let samples: Mutex<Vec<(u64, serde_json::Value)>> = Mutex::new(Vec::new());
    let caps_hit: Mutex<Vec<String>> = Mutex::new(Vec::new());
    let keys: Mutex<Vec<(u64, Option<String>)>> = Mutex::new(Vec::new());
    let t0 = seam::real_now();

    let run_family = |fam: Family<C>, want_keys: bool| -> FamilyStats {
        let f0 = seam::real_now();
        let _ = seed;
        let (tx, rx) = sync_channel::<Vec<(u64, C)>>(nthreads * 4);
        let rx = Arc::new(Mutex::new(rx));
        let stop = AtomicBool::new(false);
        let flights: Vec<Flight> = (0..nthreads).map(|_| Flight { since: AtomicU64::new(0), what: Mutex::new(String::new()) }).collect();
        let mut st = FamilyStats { name: fam.name.clone(), mode: format!("{:?}", fam.mode), bounds: fam.bounds.clone(), exhaustive: true, ..Default::default() };
        let fam_name = fam.name.clone();

        std::thread::scope(|outer| {
            // watchdog: a case that does not come back within the horizon is reported by on_hang
            let stop_ref = &stop;
            let flights_ref = &flights;
            let on_hang = &on_hang;
            let horizon = limits.horizon_s;
            outer.spawn(move || {
                while !stop_ref.load(Ordering::Relaxed) {
                    std::thread::sleep(std::time::Duration::from_millis(200));
                    let now = seam::real_now();
                    for f in flights_ref.iter() {
                        let since = f64::from_bits(f.since.load(Ordering::Relaxed));
                        if since != 0.0 && now - since > horizon {
                            let what = f.what.lock().unwrap().clone();
                            on_hang(&what);
                        }
                    }
                }
            });
            std::thread::scope(|s| {
                for w in 0..nthreads {
                    let rx = rx.clone();
                    let exec = &exec;
                    let mk_ctx = &mk_ctx;
                    let built = &built;
                    let to_json = &to_json;
                    let evaluations = &evaluations;
                    let compared = &compared;
                    let violations_total = &violations_total;
                    let violations = &violations;
                    let known = &known;
                    let unknown_total = &unknown_total;
                    let buckets = &buckets;
                    let classify = &classify;
                    let inputs = &inputs;
                    let inputs_cmp = &inputs_cmp;
                    let outcomes = &outcomes;
                    let classes = &classes;
                    let samples = &samples;
                    let calculators = &calculators;
                    let keys = &keys;
                    let flight = &flights[w];
                    let fam_name = fam_name.clone();
                    std::thread::Builder::new()
                        .stack_size(64 << 20)
                        .spawn_scoped(s, move || {
                            let mut ctx = mk_ctx();
                            let mut l_inputs: Vec<u64> = Vec::new();
                            let mut l_inputs_cmp: Vec<u64> = Vec::new();
                            let mut l_outcomes: Vec<u64> = Vec::new();
                            let mut l_classes: std::collections::BTreeMap<&'static str, u64> = Default::default();
                            loop {
                                let batch = {
                                    let g = rx.lock().unwrap();
                                    g.recv()
                                };
                                let batch = match batch {
                                    Ok(b) => b,
                                    Err(_) => break,
                                };
                                for (idx, case) in batch.iter() {
                                    *flight.what.lock().unwrap() = to_json(case).to_string();
                                    flight.since.store(seam::real_now().to_bits(), Ordering::Relaxed);
                                    let v = exec(&mut ctx, case);
                                    flight.since.store(0f64.to_bits(), Ordering::Relaxed);
                                    if want_keys {
                                        // a violating history is never expanded
                                        let k = if v.violation.is_some() { None } else { v.key.clone() };
                                        keys.lock().unwrap().push((*idx, k));
                                    }
                                    evaluations.fetch_add(v.evals.max(1), Ordering::Relaxed);
                                    let hi = h64(&v.input);
                                    l_inputs.push(hi);
                                    if v.compared {
                                        compared.fetch_add(1, Ordering::Relaxed);
                                        l_inputs_cmp.push(hi);
                                    }
                                    l_outcomes.push(h64(&v.observed));
                                    *l_classes.entry(v.class).or_insert(0) += 1;
                                    if *idx < 2 || (*idx % 9973 == 0) {
                                        let mut g = samples.lock().unwrap();
                                        if g.len() < 64 {
                                            g.push((
                                                *idx,
                                                serde_json::json!({"family": fam_name, "case": to_json(case), "input": v.input, "class": v.class, "expected": v.expected, "observed": v.observed}),
                                            ));
                                        }
                                    }
                                    if v.violation.is_some() {
                                        violations_total.fetch_add(1, Ordering::Relaxed);
                                        let viol = Violation { family: fam_name.clone(), case: case.clone(), verdict: v };
                                        match classify(&viol) {
                                            Some(fid) => {
                                                *known.lock().unwrap().entry(fid).or_insert(0) += 1;
                                            }
                                            None => {
                                                unknown_total.fetch_add(1, Ordering::Relaxed);
                                                // keep a bounded number of witnesses per kind of failure
                                                let what = viol.verdict.violation.clone().unwrap_or_default();
                                                let sig = format!("{}|{}|{}", viol.family, viol.verdict.site.clone().unwrap_or_default(), what.split(':').next().unwrap_or(""));
                                                let n = {
                                                    let mut b = buckets.lock().unwrap();
                                                    let e = b.entry(sig).or_insert(0);
                                                    *e += 1;
                                                    *e
                                                };
                                                if n <= PER_BUCKET {
                                                    let mut g = violations.lock().unwrap();
                                                    if g.len() < MAX_STORED_VIOLATIONS {
                                                        g.push(viol);
                                                    }
                                                }
                                            }
                                        }
                                    }
                                }
                                if l_inputs.len() > 1 << 16 {
                                    inputs.lock().unwrap().extend(l_inputs.drain(..));
                                    inputs_cmp.lock().unwrap().extend(l_inputs_cmp.drain(..));
                                    outcomes.lock().unwrap().extend(l_outcomes.drain(..));
                                }
                            }
                            inputs.lock().unwrap().extend(l_inputs.drain(..));
                            inputs_cmp.lock().unwrap().extend(l_inputs_cmp.drain(..));
                            outcomes.lock().unwrap().extend(l_outcomes.drain(..));
                            let mut g = classes.lock().unwrap();
                            for (k, v) in l_classes {
                                *g.entry(k.to_string()).or_insert(0) += v;
                            }
                            calculators.fetch_add(built(&ctx), Ordering::Relaxed);
                        })
                        .unwrap();
                }

                // generator (this thread): DFS over the choice tree
                let budget = match fam.mode {
                    Mode::Full => None,
                    Mode::Deviations(k) => Some(k),
                };
                let mut prefix: Vec<usize> = Vec::new();
                let mut prev_len_shared = 0usize; // nodes shared with the previous execution
                let mut batch: Vec<(u64, C)> = Vec::with_capacity(128);
                let mut idx: u64 = 0;
                let mut first = true;
                loop {
                    let mut ch = Chooser::new(prefix.clone(), budget);
                    let case = (fam.gen)(&mut ch);
                    let new_nodes = (ch.trail.len() - prev_len_shared) as u64 + if first { 1 } else { 0 };
                    first = false;
                    st.states += new_nodes;
                    match case {
                        Some(c) => {
                            st.executions += 1;
                            batch.push((idx, c));
                            idx += 1;
                            if batch.len() >= 64 {
                                if tx.send(std::mem::take(&mut batch)).is_err() {
                                    break;
                                }
                            }
                        }
                        None => st.pruned += 1,
                    }
                    // odometer: increment the last choice that still has an untried alternative
                    let mut t = ch.trail;
                    let mut advanced = false;
                    while let Some((c, n)) = t.pop() {
                        if c + 1 < n {
                            t.push((c + 1, n));
                            advanced = true;
                            break;
                        }
                    }
                    if !advanced {
                        break;
                    }
                    prev_len_shared = t.len() - 1;
                    prefix = t.iter().map(|(c, _)| *c).collect();
                    if limits.time_cap_s > 0.0 && (st.executions & 0x3ff) == 0 && seam::real_now() - t0 > limits.time_cap_s {
                        st.exhaustive = false;
                        caps_hit.lock().unwrap().push(format!("time cap {}s hit in family {} after {} executions", limits.time_cap_s, fam.name, st.executions));
                        break;
                    }
                }
                if !batch.is_empty() {
                    let _ = tx.send(batch);
                }
                drop(tx);
            });
            stop.store(true, Ordering::Relaxed);
        });
        st.transitions = st.states.saturating_sub(1);
        st.wall_s = seam::real_now() - f0;
        st
    };

    for fam in families {
        fam_stats.push(run_family(fam, false));
    }

    // ---- merged breadth-first layers ----
    for layer in bfs_layers {
        let f0 = seam::real_now();
        let mut st = FamilyStats { name: layer.name.clone(), mode: format!("MergedBfs(depth<={})", layer.max_depth), exhaustive: true, merged: true, ..Default::default() };
        let mut seen: HashSet<String> = HashSet::new();
        let mut frontier: Vec<Vec<usize>> = Vec::new();
        let mut outside = 0u64; // states outside the state constraint (checked, not expanded)
        let mut fixed_point = false;
        let mut depth_done = 0usize;
        let mut per_level: Vec<String> = Vec::new();
        // level 0: the empty history
        for depth in 0..=layer.max_depth {
            let level_hist: Arc<Vec<Vec<usize>>> = if depth == 0 {
                Arc::new(vec![Vec::new()])
            } else {
                let mut v = Vec::with_capacity(frontier.len() * layer.nops);
                for h in frontier.iter() {
                    for o in 0..layer.nops {
                        let mut n = h.clone();
                        n.push(o);
                        v.push(n);
                    }
                }
                Arc::new(v)
            };
            if level_hist.is_empty() {
                fixed_point = true;
                break;
            }
            keys.lock().unwrap().clear();
            let lh = level_hist.clone();
            let make = layer.make.clone();
            let fam = Family::new(&layer.name, Mode::Full, "", move |ch| {
                let i = ch.choose(lh.len());
                Some(make(&lh[i]))
            });
            let fs = run_family(fam, true);
            st.executions += fs.executions;
            st.transitions += fs.executions;
            let mut ks = std::mem::take(&mut *keys.lock().unwrap());
            ks.sort_by_key(|(i, _)| *i);
            let mut next = Vec::new();
            for (i, k) in ks {
                match k {
                    None => outside += 1,
                    Some(k) => {
                        if seen.insert(k) {
                            next.push(level_hist[i as usize].clone());
                        }
                    }
                }
            }
            per_level.push(format!("{}:{}", depth, next.len()));
            depth_done = depth;
            frontier = next;
            if !fs.exhaustive {
                st.exhaustive = false;
                break;
            }
            if limits.time_cap_s > 0.0 && seam::real_now() - t0 > limits.time_cap_s {
                st.exhaustive = false;
                caps_hit.lock().unwrap().push(format!("time cap {}s hit in merged layer {} after depth {}", limits.time_cap_s, layer.name, depth));
                break;
            }
        }
        if frontier.is_empty() {
            fixed_point = true;
        }
        st.states = seen.len() as u64;
        st.bounds = format!(
            "{} -- merged breadth-first search: {} operations, {} distinct merged states, {} edges executed on the real code, new states per depth [{}], {}; {} edges led outside the state constraint or to a violation (checked, not expanded)",
            layer.bounds,
            layer.nops,
            seen.len(),
            st.transitions,
            per_level.join(" "),
            if fixed_point { format!("FIXED POINT: no new state after depth {} (every state reachable under the constraint was visited)", depth_done) } else { format!("stopped at depth bound {} with {} unexpanded frontier states", depth_done, frontier.len()) },
            outside
        );
        st.wall_s = seam::real_now() - f0;
        fam_stats.push(st);
    }
    let caps_hit = caps_hit.into_inner().unwrap();

    let mut samples = samples.into_inner().unwrap();
    samples.sort_by_key(|(i, _)| *i);
    let violations = violations.into_inner().unwrap();
    RunStats {
        families: fam_stats,
        evaluations: evaluations.into_inner(),
        compared: compared.into_inner(),
        distinct_inputs: inputs.into_inner().unwrap().len() as u64,
        distinct_compared: inputs_cmp.into_inner().unwrap().len() as u64,
        distinct_outcomes: outcomes.into_inner().unwrap().len() as u64,
        classes: classes.into_inner().unwrap(),
        violations_total: violations_total.into_inner(),
        unknown_total: unknown_total.into_inner(),
        violations,
        known: known.into_inner().unwrap(),
        buckets: buckets.into_inner().unwrap().into_iter().collect(),
        samples: samples.into_iter().map(|(_, v)| v).collect(),
        caps_hit,
        calculators_built: calculators.into_inner(),
    }
}

