//! Reference model for C02: expression trees over decimal literals, an IEEE-f64 evaluator
//! with guarded division, and renderers that turn a tree into text in several styles.

use crate::lit::{self, Conv};
use serde::{Deserialize, Serialize};

#[derive(Clone, Debug, Serialize, Deserialize, PartialEq)]
pub enum Sign {
    /// "-x" written without a blank (only on unsigned literals and parenthesised subtrees)
    NegAttached,
    /// "- x"
    NegDetached,
    /// "+ x"
    PosDetached,
}

#[derive(Clone, Debug, Serialize, Deserialize, PartialEq)]
pub enum Expr {
    /// canonical decimal string, optional magnitude suffix
    Lit(String, Option<char>),
    /// operator ' ' = operands written side by side: added, at additive precedence
    Bin(char, Box<Expr>, Box<Expr>),
    Sign(Sign, Box<Expr>),
}

pub fn suffix_factor(c: char) -> f64 {
    match c {
        'k' | 'K' => 1e3,
        'M' => 1e6,
        'G' => 1e9,
        'T' => 1e12,
        'P' => 1e15,
        'Z' => 1e18,
        'Y' => 1e21,
        _ => 1.0,
    }
}

pub fn guarded_div(a: f64, b: f64) -> f64 {
    let r = a / b;
    if r.is_nan() || r.is_infinite() {
        0.0
    } else {
        r
    }
}

pub fn eval(e: &Expr) -> f64 {
    match e {
        Expr::Lit(s, suf) => lit::value(s) * suf.map(suffix_factor).unwrap_or(1.0),
        Expr::Bin(op, l, r) => {
            let (a, b) = (eval(l), eval(r));
            match op {
                '+' | ' ' => a + b,
                '-' => a - b,
                '*' => a * b,
                '/' => guarded_div(a, b),
                _ => unreachable!(),
            }
        }
        Expr::Sign(s, x) => match s {
            Sign::NegAttached | Sign::NegDetached => -eval(x),
            Sign::PosDetached => eval(x),
        },
    }
}

#[derive(Clone, Copy, Debug, Serialize, Deserialize, PartialEq)]
pub enum Style {
    /// parentheses only where the tree needs them, one blank between tokens
    Minimal,
    /// every binary node parenthesised
    Full,
    /// minimal parentheses, no blanks at all ("1+2*3")
    Tight,
    /// every parenthesis doubled: "((1 + 2)) * 3", root wrapped as well
    Doubled,
    /// minimal parentheses, two blanks between tokens, blanks at both ends
    Wide,
    /// root wrapped in three pairs
    Triple,
}

pub const STYLES: [Style; 6] = [Style::Minimal, Style::Full, Style::Tight, Style::Doubled, Style::Wide, Style::Triple];

#[derive(Clone, Debug, PartialEq)]
pub enum Tok {
    Num(String),
    Op(char),
    L,
    R,
    /// sign glued to the following token
    Glue(char),
}

fn prec(e: &Expr) -> u8 {
    match e {
        Expr::Lit(..) => 4,
        Expr::Sign(..) => 3,
        Expr::Bin('*', ..) | Expr::Bin('/', ..) => 2,
        Expr::Bin(..) => 1,
    }
}

fn lit_text(s: &str, suf: &Option<char>, conv: &Conv) -> String {
    let mut t = lit::render(s, conv, conv.group);
    if let Some(c) = suf {
        t.push(*c);
    }
    t
}

fn wrap(out: &mut Vec<Tok>, inner: Vec<Tok>, times: usize) {
    for _ in 0..times {
        out.push(Tok::L);
    }
    out.extend(inner);
    for _ in 0..times {
        out.push(Tok::R);
    }
}

fn toks(e: &Expr, style: Style, conv: &Conv) -> Vec<Tok> {
    let pw = if style == Style::Doubled { 2 } else { 1 };
    match e {
        Expr::Lit(s, suf) => vec![Tok::Num(lit_text(s, suf, conv))],
        Expr::Bin(op, l, r) => {
            let me = prec(e);
            let mut out = Vec::new();
            let lt = toks(l, style, conv);
            let need_l = match style {
                Style::Full => !matches!(**l, Expr::Lit(..)),
                _ => prec(l) < me,
            };
            if need_l {
                wrap(&mut out, lt, pw);
            } else {
                out.extend(lt);
            }
            if *op != ' ' {
                out.push(Tok::Op(*op));
            }
            let rt = toks(r, style, conv);
            let need_r = match style {
                Style::Full => !matches!(**r, Expr::Lit(..)),
                // equal precedence on the right always needs parentheses to keep the tree
                // (f64 arithmetic is not associative); a signed operand is fine as it is
                _ => prec(r) <= me && !matches!(**r, Expr::Sign(..)),
            };
            if need_r {
                wrap(&mut out, rt, pw);
            } else {
                out.extend(rt);
            }
            out
        }
        Expr::Sign(s, x) => {
            let mut out = Vec::new();
            let xt = toks(x, style, conv);
            // a chain of detached signs is written without parentheses: "- - 7"
            let inner_needs = !matches!(**x, Expr::Lit(..) | Expr::Sign(Sign::NegDetached, _) | Expr::Sign(Sign::PosDetached, _));
            match s {
                Sign::NegAttached => out.push(Tok::Glue('-')),
                Sign::NegDetached => out.push(Tok::Op('-')),
                Sign::PosDetached => out.push(Tok::Op('+')),
            }
            if inner_needs {
                wrap(&mut out, xt, pw);
            } else {
                out.extend(xt);
            }
            out
        }
    }
}

pub fn tokens(e: &Expr, style: Style, conv: &Conv) -> Vec<Tok> {
    let inner = toks(e, style, conv);
    match style {
        Style::Doubled => {
            let mut out = Vec::new();
            wrap(&mut out, inner, 2);
            out
        }
        Style::Triple => {
            let mut out = Vec::new();
            wrap(&mut out, inner, 3);
            out
        }
        _ => inner,
    }
}

pub fn join(ts: &[Tok], style: Style) -> String {
    let gap = match style {
        Style::Tight => "",
        Style::Wide => "  ",
        _ => " ",
    };
    let mut s = String::new();
    if style == Style::Wide {
        s.push_str("  ");
    }
    let mut prev: Option<&Tok> = None;
    for t in ts {
        if let Some(p) = prev {
            let glue = matches!(p, Tok::Glue(_)) || (matches!(p, Tok::L) && style != Style::Wide) || (matches!(t, Tok::R) && style != Style::Wide);
            if !glue {
                // two literals side by side always need a blank, also in the tight style
                if gap.is_empty() && matches!(p, Tok::Num(_)) && matches!(t, Tok::Num(_)) {
                    s.push(' ');
                } else {
                    s.push_str(gap);
                }
            }
        }
        match t {
            Tok::Num(n) => s.push_str(n),
            Tok::Op(c) | Tok::Glue(c) => s.push(*c),
            Tok::L => s.push('('),
            Tok::R => s.push(')'),
        }
        prev = Some(t);
    }
    if style == Style::Wide {
        s.push_str("  ");
    }
    s
}

pub fn render(e: &Expr, style: Style, conv: &Conv) -> String {
    join(&tokens(e, style, conv), style)
}

fn days_in_month(y: i64, m: i64) -> i64 {
    match m {
        1 | 3 | 5 | 7 | 8 | 10 | 12 => 31,
        4 | 6 | 9 | 11 => 30,
        2 => {
            if (y % 4 == 0 && y % 100 != 0) || y % 400 == 0 {
                29
            } else {
                28
            }
        }
        _ => 0,
    }
}

/// The same exclusion decided on the rendered *text*: in a tight rendering a detached sign ends up
/// glued to the following literal ("7/+7/-7"), and a literal with a glued sign is one number token
/// to the reader, so "7/7/-7" reads as day 7, month 7, year -7 (a valid proleptic date).  Blanks
/// around '/' do not matter, a blank between a sign and its digits does.
pub fn text_has_date_triple(text: &str) -> bool {
    #[derive(Debug)]
    enum K {
        Num(i64),
        Slash,
        Other,
    }
    let cs: Vec<char> = text.chars().collect();
    let mut toks: Vec<K> = Vec::new();
    let mut i = 0;
    while i < cs.len() {
        let c = cs[i];
        if c == ' ' {
            i += 1;
            continue;
        }
        let signed = (c == '+' || c == '-') && i + 1 < cs.len() && cs[i + 1].is_ascii_digit();
        if c.is_ascii_digit() || signed {
            let mut j = if signed { i + 1 } else { i };
            let start = j;
            while j < cs.len() && cs[j].is_ascii_digit() {
                j += 1;
            }
            let int_part: String = cs[start..j].iter().collect();
            // fraction / grouping / suffix letters belong to the same literal
            while j < cs.len() && (cs[j].is_ascii_alphanumeric() || cs[j] == ',' || cs[j] == '.') {
                j += 1;
            }
            let mut v = int_part.parse::<i64>().unwrap_or(i64::MAX);
            if c == '-' {
                v = -v;
            }
            // a literal with a fraction is never a day, month or year (default convention: ','
            // decimal, '.' grouping); anything else that does not parse stays conservative
            let whole: String = cs[start..j].iter().collect();
            let canon = whole.replace('.', "").replace(',', ".");
            match canon.parse::<f64>() {
                Ok(f) if f.fract() != 0.0 => toks.push(K::Other),
                _ => toks.push(K::Num(v)),
            }
            i = j;
        } else if c == '/' {
            toks.push(K::Slash);
            i += 1;
        } else {
            toks.push(K::Other);
            i += 1;
        }
    }
    for w in toks.windows(5) {
        if let (K::Num(d), K::Slash, K::Num(m), K::Slash, K::Num(y)) = (&w[0], &w[1], &w[2], &w[3], &w[4]) {
            if *m >= 1 && *m <= 12 && *d >= 1 && *y > -262_000 && *y < 262_000 && *d <= days_in_month(*y, *m) {
                return true;
            }
        }
    }
    false
}

/// The statement excludes a quotient chain `a / b / c` whose operands read as a valid
/// day/month/year.  Applied to the rendered token stream: three literals separated by '/'
/// with nothing in between (blanks do not count) form a date if day and month are valid.
pub fn has_date_triple(ts: &[Tok]) -> bool {
    // attach glued signs to the following literal
    let mut flat: Vec<(bool, String)> = Vec::new(); // (is_number, text)
    let mut glue: Option<char> = None;
    for t in ts {
        match t {
            Tok::Glue(c) => glue = Some(*c),
            Tok::Num(n) => {
                let mut s = String::new();
                if let Some(g) = glue.take() {
                    s.push(g);
                }
                s.push_str(n);
                flat.push((true, s));
            }
            Tok::Op(c) => {
                glue = None;
                flat.push((false, c.to_string()));
            }
            Tok::L => {
                glue = None;
                flat.push((false, "(".into()))
            }
            Tok::R => flat.push((false, ")".into())),
        }
    }
    for w in flat.windows(5) {
        if w[0].0 && !w[1].0 && w[1].1 == "/" && w[2].0 && !w[3].0 && w[3].1 == "/" && w[4].0 {
            let num = |s: &str| -> Option<f64> {
                let t: String = s.chars().filter(|c| c.is_ascii_digit() || *c == '-' || *c == '+').collect();
                // literal text may use any separator: keep it simple and conservative — look at
                // the integer part only
                let int_part: String = s.chars().take_while(|c| c.is_ascii_digit() || *c == '-' || *c == '+').collect();
                let _ = t;
                if let Ok(f) = s.replace('.', "").replace(',', ".").parse::<f64>() {
                    if f.fract() != 0.0 {
                        return None; // a fraction is never a day, month or year
                    }
                }
                int_part.parse::<f64>().ok()
            };
            if let (Some(d), Some(m), Some(y)) = (num(&w[0].1), num(&w[2].1), num(&w[4].1)) {
                let (d, m, y) = (d as i64, m as i64, y as i64);
                if m >= 1 && m <= 12 && d >= 1 && d <= days_in_month(y, m) {
                    return true;
                }
            }
        }
    }
    false
}
