pub mod arith;
