pub mod arith;
pub mod duration;
pub mod decimal;
pub mod units;
pub mod calendar;
