//! Exact decimal arithmetic on digit strings (no floating point in the C07 oracle).

/// non-negative decimal: digits of the integer obtained after multiplying by 10^scale
#[derive(Clone, Debug, PartialEq)]
pub struct Dec {
    pub digits: Vec<u8>, // most significant first, no leading zeros (empty = 0)
    pub scale: usize,
}

fn strip(mut d: Vec<u8>) -> Vec<u8> {
    let nz = d.iter().position(|x| *x != 0).unwrap_or(d.len());
    d.drain(..nz);
    d
}

impl Dec {
    pub fn parse(int: &str, frac: &str) -> Dec {
        let mut d: Vec<u8> = int.bytes().map(|b| b - b'0').collect();
        d.extend(frac.bytes().map(|b| b - b'0'));
        Dec { digits: strip(d), scale: frac.len() }
    }
    /// exact expansion of |x| (finite)
    pub fn of_f64(x: f64) -> Dec {
        let s = format!("{:.340}", x.abs());
        let (i, f) = s.split_once('.').unwrap();
        let f = f.trim_end_matches('0');
        // guard: 340 digits are enough for |x| >= 2^-280 or x == 0 (checked by round trip)
        let back: f64 = format!("{}.{}", i, if f.is_empty() { "0" } else { f }).parse().unwrap();
        assert!(back == x.abs(), "decimal expansion of {:?} is not exact", x);
        Dec::parse(i, f)
    }
    pub fn is_zero(&self) -> bool {
        self.digits.is_empty()
    }
    fn rescale(&self, scale: usize) -> Vec<u8> {
        assert!(scale >= self.scale);
        if self.digits.is_empty() {
            return Vec::new();
        }
        let mut d = self.digits.clone();
        d.extend(std::iter::repeat(0).take(scale - self.scale));
        d
    }
}

fn cmp(a: &[u8], b: &[u8]) -> std::cmp::Ordering {
    if a.len() != b.len() {
        return a.len().cmp(&b.len());
    }
    a.cmp(b)
}

fn sub(a: &[u8], b: &[u8]) -> Vec<u8> {
    // a >= b
    let mut out = vec![0u8; a.len()];
    let mut borrow = 0i8;
    for i in 0..a.len() {
        let ai = a[a.len() - 1 - i] as i8;
        let bi = if i < b.len() { b[b.len() - 1 - i] as i8 } else { 0 };
        let mut v = ai - bi - borrow;
        if v < 0 {
            v += 10;
            borrow = 1;
        } else {
            borrow = 0;
        }
        out[a.len() - 1 - i] = v as u8;
    }
    strip(out)
}

fn double(a: &[u8]) -> Vec<u8> {
    let mut out = vec![0u8; a.len() + 1];
    let mut carry = 0u8;
    for i in 0..a.len() {
        let v = a[a.len() - 1 - i] * 2 + carry;
        out[a.len() - i] = v % 10;
        carry = v / 10;
    }
    out[0] = carry;
    strip(out)
}

/// ordering of 2*|a-b| against 10^-d  (Less: strictly inside half a unit; Equal: exact tie)
pub fn half_unit_cmp(a: &Dec, b: &Dec, d: usize) -> std::cmp::Ordering {
    let scale = a.scale.max(b.scale).max(d);
    let (x, y) = (a.rescale(scale), b.rescale(scale));
    let diff = if cmp(&x, &y) == std::cmp::Ordering::Less { sub(&y, &x) } else { sub(&x, &y) };
    let twice = double(&diff);
    // 10^-d at this scale = 1 followed by (scale-d) zeros
    let mut unit = vec![1u8];
    unit.extend(std::iter::repeat(0).take(scale - d));
    cmp(&twice, &unit)
}
