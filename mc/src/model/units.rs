//! Hand-written unit table (NOT read from config.json, so wrong data there is a finding).

#[derive(Clone, Copy, Debug, PartialEq, Eq)]
pub enum Kind {
    Length,
    Weight,
    Memory,
}

pub struct Unit {
    pub short: &'static str,
    pub kind: Kind,
    /// size in the kind's base unit (mm, mg, bit)
    pub factor: f64,
    /// config.json family name and index, used to compare the observed unit identity
    pub group: &'static str,
    pub index: usize,
}

const K: f64 = 1024.0;

pub const UNITS: &[Unit] = &[
    Unit { short: "mm", kind: Kind::Length, factor: 1.0, group: "metric-length", index: 1 },
    Unit { short: "cm", kind: Kind::Length, factor: 10.0, group: "metric-length", index: 2 },
    Unit { short: "dm", kind: Kind::Length, factor: 100.0, group: "metric-length", index: 3 },
    Unit { short: "m", kind: Kind::Length, factor: 1000.0, group: "metric-length", index: 4 },
    Unit { short: "dam", kind: Kind::Length, factor: 1e4, group: "metric-length", index: 5 },
    Unit { short: "hm", kind: Kind::Length, factor: 1e5, group: "metric-length", index: 6 },
    Unit { short: "km", kind: Kind::Length, factor: 1e6, group: "metric-length", index: 7 },
    Unit { short: "inch", kind: Kind::Length, factor: 25.4, group: "imperial-unit-length", index: 1 },
    Unit { short: "ft", kind: Kind::Length, factor: 25.4 * 12.0, group: "imperial-unit-length", index: 2 },
    Unit { short: "yard", kind: Kind::Length, factor: 25.4 * 36.0, group: "imperial-unit-length", index: 3 },
    Unit { short: "furlong", kind: Kind::Length, factor: 25.4 * 36.0 * 220.0, group: "imperial-unit-length", index: 4 },
    Unit { short: "mile", kind: Kind::Length, factor: 25.4 * 36.0 * 1760.0, group: "imperial-unit-length", index: 5 },
    Unit { short: "mg", kind: Kind::Weight, factor: 1.0, group: "metric-weight", index: 1 },
    Unit { short: "cg", kind: Kind::Weight, factor: 10.0, group: "metric-weight", index: 2 },
    Unit { short: "dg", kind: Kind::Weight, factor: 100.0, group: "metric-weight", index: 3 },
    Unit { short: "g", kind: Kind::Weight, factor: 1000.0, group: "metric-weight", index: 4 },
    Unit { short: "dag", kind: Kind::Weight, factor: 1e4, group: "metric-weight", index: 5 },
    Unit { short: "hg", kind: Kind::Weight, factor: 1e5, group: "metric-weight", index: 6 },
    Unit { short: "kg", kind: Kind::Weight, factor: 1e6, group: "metric-weight", index: 7 },
    Unit { short: "tonne", kind: Kind::Weight, factor: 1e9, group: "metric-weight", index: 8 },
    Unit { short: "oz", kind: Kind::Weight, factor: 28349.5231, group: "imperial-unit-weight", index: 1 },
    Unit { short: "lb", kind: Kind::Weight, factor: 28349.5231 * 16.0, group: "imperial-unit-weight", index: 2 },
    Unit { short: "stone", kind: Kind::Weight, factor: 28349.5231 * 16.0 * 14.0, group: "imperial-unit-weight", index: 3 },
    Unit { short: "bit", kind: Kind::Memory, factor: 1.0, group: "memory", index: 1 },
    Unit { short: "byte", kind: Kind::Memory, factor: 8.0, group: "memory", index: 2 },
    Unit { short: "kb", kind: Kind::Memory, factor: 8.0 * K, group: "memory", index: 3 },
    Unit { short: "mb", kind: Kind::Memory, factor: 8.0 * K * K, group: "memory", index: 4 },
    Unit { short: "gb", kind: Kind::Memory, factor: 8.0 * K * K * K, group: "memory", index: 5 },
    Unit { short: "tb", kind: Kind::Memory, factor: 8.0 * K * K * K * K, group: "memory", index: 6 },
    Unit { short: "pb", kind: Kind::Memory, factor: 8.0 * K * K * K * K * K, group: "memory", index: 7 },
    Unit { short: "eb", kind: Kind::Memory, factor: 8.0 * K * K * K * K * K * K, group: "memory", index: 8 },
    Unit { short: "zb", kind: Kind::Memory, factor: 8.0 * K * K * K * K * K * K * K, group: "memory", index: 9 },
    Unit { short: "yb", kind: Kind::Memory, factor: 8.0 * K * K * K * K * K * K * K * K, group: "memory", index: 10 },
];

/// spellings the configuration admits for this unit as a *source* ("5 <word>") and as a
/// *target* ("to <word>"), read from config.json (the data under test is the factors, not the words)
pub fn spellings(u: &Unit) -> (Vec<String>, Vec<String>) {
    let sp = crate::spec::spec();
    let mut src = Vec::new();
    let mut tgt = Vec::new();
    for t in sp.json["types"].as_array().unwrap() {
        if t["name"].as_str() != Some(u.group) {
            continue;
        }
        for it in t["items"].as_array().unwrap() {
            if it["index"].as_u64() != Some(u.index as u64) {
                continue;
            }
            for p in it["parse"].as_array().unwrap() {
                let p = p.as_str().unwrap();
                // "{NUMBER:value} {TEXT:type:mm}" or "{NUMBER:value} megabyte"
                let w = p.rsplit(' ').next().unwrap();
                let w = w.trim_start_matches("{TEXT:type:").trim_end_matches('}');
                src.push(w.to_string());
            }
            for n in it["names"].as_array().unwrap() {
                tgt.push(n.as_str().unwrap().to_string());
            }
        }
    }
    (src, tgt)
}
