//! Reference model for durations (unit lengths from the statement, greedy printing).

pub const MIN: i64 = 60;
pub const HOUR: i64 = 3600;
pub const DAY: i64 = 86400;
pub const WEEK: i64 = 7 * DAY;
pub const MONTH: i64 = 30 * DAY;
pub const YEAR: i64 = 365 * DAY;

#[derive(Clone, Copy, Debug, PartialEq, Eq)]
pub enum Unit {
    Second,
    Minute,
    Hour,
    Day,
    Week,
    Month,
    Year,
}

pub const UNITS: [Unit; 7] = [Unit::Second, Unit::Minute, Unit::Hour, Unit::Day, Unit::Week, Unit::Month, Unit::Year];

impl Unit {
    pub fn len(self) -> i64 {
        match self {
            Unit::Second => 1,
            Unit::Minute => MIN,
            Unit::Hour => HOUR,
            Unit::Day => DAY,
            Unit::Week => WEEK,
            Unit::Month => MONTH,
            Unit::Year => YEAR,
        }
    }
    /// id used by config.json's constant_pair (only used to *find the spellings* of a unit in
    /// a language; the lengths above are hand-written)
    pub fn constant_id(self) -> u64 {
        match self {
            Unit::Day => 1,
            Unit::Week => 2,
            Unit::Month => 3,
            Unit::Year => 4,
            Unit::Second => 5,
            Unit::Minute => 6,
            Unit::Hour => 7,
        }
    }
    /// hand-written output words: (singular, plural)
    pub fn words(self, lang: &str) -> (&'static str, &'static str) {
        match (lang, self) {
            ("tr", Unit::Second) => ("saniye", "saniye"),
            ("tr", Unit::Minute) => ("dakika", "dakika"),
            ("tr", Unit::Hour) => ("saat", "saat"),
            ("tr", Unit::Day) => ("gün", "gün"),
            ("tr", Unit::Week) => ("hafta", "hafta"),
            ("tr", Unit::Month) => ("ay", "ay"),
            ("tr", Unit::Year) => ("yıl", "yıl"),
            (_, Unit::Second) => ("second", "seconds"),
            (_, Unit::Minute) => ("minute", "minutes"),
            (_, Unit::Hour) => ("hour", "hours"),
            (_, Unit::Day) => ("day", "days"),
            (_, Unit::Week) => ("week", "weeks"),
            (_, Unit::Month) => ("month", "months"),
            (_, Unit::Year) => ("year", "years"),
        }
    }
}

/// N units in seconds.  Twelve months make one year (365 days), otherwise a month is 30 days.
pub fn amount(n: i64, u: Unit) -> i64 {
    match u {
        Unit::Month => (n / 12) * YEAR + (n % 12) * MONTH,
        _ => n * u.len(),
    }
}

/// greedy decomposition of the magnitude, largest unit first
pub fn print(secs: i64, lang: &str) -> String {
    let mut rest = secs.abs();
    let mut parts: Vec<String> = Vec::new();
    for u in [Unit::Year, Unit::Month, Unit::Week, Unit::Day, Unit::Hour, Unit::Minute, Unit::Second] {
        let q = rest / u.len();
        if q > 0 {
            let (s, p) = u.words(lang);
            parts.push(format!("{} {}", q, if q == 1 { s } else { p }));
            rest -= q * u.len();
        }
    }
    parts.join(" ")
}

/// all spellings of a unit in a language, from config.json
/// the spellings of the pinned configuration, written by hand: a spelling that disappears from
/// config.json (or stops being derived from it) is still exercised
fn pinned_spellings(lang: &str, u: Unit) -> &'static [&'static str] {
    match (lang, u) {
        ("en", Unit::Second) => &["second", "seconds"],
        ("en", Unit::Minute) => &["minute", "minutes"],
        ("en", Unit::Hour) => &["hour", "hours"],
        ("en", Unit::Day) => &["day", "days"],
        ("en", Unit::Week) => &["week", "weeks"],
        ("en", Unit::Month) => &["month", "months"],
        ("en", Unit::Year) => &["year", "years"],
        ("tr", Unit::Second) => &["saniye"],
        ("tr", Unit::Minute) => &["dakika"],
        ("tr", Unit::Hour) => &["saat"],
        ("tr", Unit::Day) => &["gün", "gun"],
        ("tr", Unit::Week) => &["hafta"],
        ("tr", Unit::Month) => &["ay"],
        ("tr", Unit::Year) => &["yıl", "yil"],
        _ => &[],
    }
}

pub fn spellings(lang: &str, u: Unit) -> Vec<String> {
    let sp = crate::spec::spec();
    let mut v: Vec<String> = pinned_spellings(lang, u).iter().map(|s| s.to_string()).collect();
    if let Some(o) = sp.lang(lang)["constant_pair"].as_object() {
        for (w, id) in o {
            if id.as_u64() == Some(u.constant_id()) && !v.contains(w) {
                v.push(w.clone());
            }
        }
    }
    v
}
