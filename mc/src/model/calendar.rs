//! Proleptic-Gregorian day arithmetic (Hinnant's algorithms), self-checked against chrono.

pub fn is_leap(y: i64) -> bool {
    (y % 4 == 0 && y % 100 != 0) || y % 400 == 0
}

pub fn days_in_month(y: i64, m: i64) -> i64 {
    match m {
        1 | 3 | 5 | 7 | 8 | 10 | 12 => 31,
        4 | 6 | 9 | 11 => 30,
        2 => {
            if is_leap(y) {
                29
            } else {
                28
            }
        }
        _ => 0,
    }
}

pub fn valid(y: i64, m: i64, d: i64) -> bool {
    m >= 1 && m <= 12 && d >= 1 && d <= days_in_month(y, m)
}

/// days since 1970-01-01
pub fn days_from_civil(y: i64, m: i64, d: i64) -> i64 {
    let y = if m <= 2 { y - 1 } else { y };
    let era = if y >= 0 { y } else { y - 399 } / 400;
    let yoe = y - era * 400;
    let mp = (m + 9) % 12;
    let doy = (153 * mp + 2) / 5 + d - 1;
    let doe = yoe * 365 + yoe / 4 - yoe / 100 + doy;
    era * 146097 + doe - 719468
}

pub fn civil_from_days(z: i64) -> (i64, i64, i64) {
    let z = z + 719468;
    let era = if z >= 0 { z } else { z - 146096 } / 146097;
    let doe = z - era * 146097;
    let yoe = (doe - doe / 1460 + doe / 36524 - doe / 146096) / 365;
    let y = yoe + era * 400;
    let doy = doe - (365 * yoe + yoe / 4 - yoe / 100);
    let mp = (5 * doy + 2) / 153;
    let d = doy - (153 * mp + 2) / 5 + 1;
    let m = if mp < 10 { mp + 3 } else { mp - 9 };
    (if m <= 2 { y + 1 } else { y }, m, d)
}

pub fn add_days(date: (i64, i64, i64), n: i64) -> (i64, i64, i64) {
    civil_from_days(days_from_civil(date.0, date.1, date.2) + n)
}

/// same day of month, calendar month moved by n; None if that day does not exist
pub fn add_months(date: (i64, i64, i64), n: i64) -> Option<(i64, i64, i64)> {
    let total = date.0 * 12 + (date.1 - 1) + n;
    let (y, m) = (total.div_euclid(12), total.rem_euclid(12) + 1);
    if valid(y, m, date.2) {
        Some((y, m, date.2))
    } else {
        None
    }
}

pub fn civil_from_epoch(secs: i64) -> ((i64, i64, i64), i64) {
    let days = secs.div_euclid(86400);
    (civil_from_days(days), secs.rem_euclid(86400))
}

/// Self-check against chrono for every day of years 1..=9999 (run once at start-up).
pub fn self_check() -> Result<(), String> {
    use chrono::{Datelike, NaiveDate};
    let start = NaiveDate::from_ymd_opt(1, 1, 1).unwrap();
    let z0 = days_from_civil(1, 1, 1);
    let mut d = start;
    let mut z = z0;
    loop {
        let (y, m, dd) = civil_from_days(z);
        if (y, m, dd) != (d.year() as i64, d.month() as i64, d.day() as i64) || days_from_civil(y, m, dd) != z {
            return Err(format!("calendar model disagrees with chrono at {}", d));
        }
        if d.year() == 9999 && d.month() == 12 && d.day() == 31 {
            break;
        }
        d = d.succ_opt().unwrap();
        z += 1;
    }
    if days_from_civil(1970, 1, 1) != 0 {
        return Err("epoch is not day 0".into());
    }
    Ok(())
}
