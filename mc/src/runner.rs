//! Generic driver for one property: explore, triage against known findings, confirm,
//! write evidence and replay files, decide the exit code.

use crate::explore::{self, Bfs, Family, Limits, Verdict, Violation};
use crate::kf::{self, Finding};
use crate::seam;
use serde::{de::DeserializeOwned, Serialize};
use smartcalc::SmartCalc;
use std::collections::{BTreeMap, HashMap};

#[derive(Clone, Copy, Debug, PartialEq)]
pub enum Tier {
    Quick,
    Thorough,
}
impl Tier {
    pub fn name(&self) -> &'static str {
        match self {
            Tier::Quick => "quick",
            Tier::Thorough => "thorough",
        }
    }
    pub fn pick<T>(&self, q: T, t: T) -> T {
        match self {
            Tier::Quick => q,
            Tier::Thorough => t,
        }
    }
}

/// A calculator configuration reachable through the public setters.
#[derive(Clone, Debug, Serialize, serde::Deserialize, PartialEq, Eq, Hash, Default)]
pub struct Cfg {
    /// decimal separator (None = library default ",")
    #[serde(default, skip_serializing_if = "Option::is_none")]
    pub dec: Option<String>,
    /// thousands separator (None = library default ".")
    #[serde(default, skip_serializing_if = "Option::is_none")]
    pub thou: Option<String>,
    #[serde(default, skip_serializing_if = "Option::is_none")]
    pub num: Option<(u8, bool, bool)>,
    #[serde(default, skip_serializing_if = "Option::is_none")]
    pub pct: Option<(u8, bool, bool)>,
    #[serde(default, skip_serializing_if = "Option::is_none")]
    pub money: Option<(bool, bool)>,
    #[serde(default, skip_serializing_if = "Option::is_none")]
    pub tz: Option<String>,
    /// a user-defined unit family "fmt" with one item 'qq' ("{value} qq") that carries its own
    /// (decimal digits, zero-fraction removal, rounding) settings
    #[serde(default, skip_serializing_if = "Option::is_none")]
    pub user_unit: Option<(u8, bool, bool)>,
    /// a user rule 'zzq {NUMBER:n}' -> n + 1 registered for English and Turkish (it matches none
    /// of the generated lines: its mere presence must not change anything)
    #[serde(default, skip_serializing_if = "std::ops::Not::not")]
    pub user_rule: bool,
    /// a user unit family 'troy-weight' (gr, dwt, oz, lb) whose words 'oz' and 'lb' also belong to
    /// the built-in imperial weights: which family such a word denotes is decided by the
    /// configuration alone, never by what was evaluated before
    #[serde(default, skip_serializing_if = "std::ops::Not::not")]
    pub troy: bool,
    /// a user unit family 'zero' whose lowest item has index 0: zaa (0), zbb (1), zcc (2), each ten
    /// of the one below
    #[serde(default, skip_serializing_if = "std::ops::Not::not")]
    pub zero_unit: bool,
    /// update_currency calls, "name=rate", in order
    #[serde(default, skip_serializing_if = "Vec::is_empty")]
    pub rates: Vec<String>,
}

impl Cfg {
    pub fn seps(dec: &str, thou: &str) -> Cfg {
        Cfg { dec: Some(dec.to_string()), thou: Some(thou.to_string()), ..Default::default() }
    }
    pub fn dec_str(&self) -> &str {
        self.dec.as_deref().unwrap_or(",")
    }
    pub fn thou_str(&self) -> &str {
        self.thou.as_deref().unwrap_or(".")
    }
    /// Build a calculator with this configuration.  Setter failures are reported.
    pub fn build(&self) -> Result<SmartCalc, String> {
        let mut c = SmartCalc::default();
        if let Some(d) = &self.dec {
            c.set_decimal_seperator(d.clone());
        }
        if let Some(t) = &self.thou {
            c.set_thousand_separator(t.clone());
        }
        if let Some((d, r, f)) = self.num {
            c.set_number_configuration(d, r, f);
        }
        if let Some((d, r, f)) = self.pct {
            c.set_percentage_configuration(d, r, f);
        }
        if let Some((r, f)) = self.money {
            c.set_money_configuration(r, f);
        }
        if let Some(tz) = &self.tz {
            c.set_timezone(tz.clone())?;
        }
        if let Some((d, remove, rounding)) = self.user_unit {
            if !c.add_dynamic_type("fmt") {
                return Err("add_dynamic_type(fmt) rejected".into());
            }
            if !c.add_dynamic_type_item("fmt", 1, "{value} qq", vec!["{NUMBER:value} {TEXT:type:qq}", "{TEXT:type:qq} {NUMBER:value}"], "{value}", "{value}", vec!["qq".to_string()], Some(d), Some(rounding), Some(remove)) {
                return Err("add_dynamic_type_item(fmt, 1) rejected".into());
            }
        }
        if self.troy {
            if !c.add_dynamic_type("troy-weight") {
                return Err("add_dynamic_type(troy-weight) rejected".into());
            }
            for (i, (w, up, down)) in [("gr", "{value} / 24", "{value}"), ("dwt", "{value} / 20", "{value} * 24"), ("oz", "{value} / 12", "{value} * 20"), ("lb", "{value}", "{value} * 12")].iter().enumerate() {
                let parse = format!("{{NUMBER:value}} {{TEXT:type:{}}}", w);
                if !c.add_dynamic_type_item("troy-weight", i + 1, &format!("{{value}} {}", w), vec![parse.as_str()], up, down, vec![w.to_string()], None, None, None) {
                    return Err(format!("add_dynamic_type_item(troy-weight, {}) rejected", w));
                }
            }
        }
        if self.zero_unit {
            if !c.add_dynamic_type("zero") {
                return Err("add_dynamic_type(zero) rejected".into());
            }
            for (i, (w, up, down)) in [("zaa", "{value} / 10", "{value}"), ("zbb", "{value} / 10", "{value} * 10"), ("zcc", "{value}", "{value} * 10")].iter().enumerate() {
                let parse = format!("{{NUMBER:value}} {{TEXT:type:{}}}", w);
                if !c.add_dynamic_type_item("zero", i, &format!("{{value}} {}", w), vec![parse.as_str()], up, down, vec![w.to_string()], None, None, None) {
                    return Err(format!("add_dynamic_type_item(zero, {}) rejected", w));
                }
            }
        }
        for r in self.rates.iter() {
            let (name, rate) = r.split_once('=').ok_or("bad rate entry")?;
            if !c.update_currency(name, rate.parse::<f64>().map_err(|e| e.to_string())?) {
                return Err(format!("update_currency({}) rejected", name));
            }
        }
        if self.user_rule {
            for lang in ["en", "tr"] {
                if !c.add_rule(lang.to_string(), vec!["zzq {NUMBER:n}".to_string()], std::rc::Rc::new(BystanderRule)) {
                    return Err("add_rule(bystander) rejected".into());
                }
            }
        }
        Ok(c)
    }
}

/// the rule behind `Cfg::user_rule`
struct BystanderRule;
impl smartcalc::RuleTrait for BystanderRule {
    fn name(&self) -> String {
        "bystander".to_string()
    }
    fn call(&self, _: &smartcalc::SmartCalcConfig, fields: &std::collections::BTreeMap<String, smartcalc::TokenType>) -> Option<smartcalc::TokenType> {
        match fields.get("n") {
            Some(smartcalc::TokenType::Number(n, _)) => Some(smartcalc::TokenType::Number(n + 1.0, smartcalc::NumberType::Decimal)),
            _ => None,
        }
    }
}

/// Per-thread context: calculators are `!Send`, so each worker owns its own.
pub struct Ctx {
    calcs: HashMap<Cfg, SmartCalc>,
    pub built: u64,
    /// per-thread memo for reference observations (e.g. a text on a fresh calculator)
    pub memo: HashMap<String, String>,
    /// a calculator a check may take, mutate and hand back after undoing its changes
    pub pool: Option<SmartCalc>,
}

/// reference observations shared by all worker threads (a fresh-calculator observation is a pure
/// function of its key; sharing only saves rebuilding the same calculator once per thread)
static SHARED_MEMO: std::sync::OnceLock<std::sync::Mutex<HashMap<String, String>>> = std::sync::OnceLock::new();

pub fn shared_get(key: &str) -> Option<String> {
    SHARED_MEMO.get_or_init(Default::default).lock().unwrap().get(key).cloned()
}
pub fn shared_put(key: String, val: String) {
    SHARED_MEMO.get_or_init(Default::default).lock().unwrap().insert(key, val);
}

impl Ctx {
    pub fn new() -> Ctx {
        Ctx { calcs: HashMap::new(), built: 0, memo: HashMap::new(), pool: None }
    }
    /// A long-lived calculator for this configuration (re-used between cases: evaluation
    /// takes `&self`; that re-use is harmless is exactly what C04 checks separately, and every
    /// violation is confirmed on a fresh calculator before it is reported).
    pub fn calc(&mut self, cfg: &Cfg) -> &SmartCalc {
        if !self.calcs.contains_key(cfg) {
            let c = seam::guarded(|| cfg.build()).expect("SmartCalc::default() panicked").expect("configuration rejected");
            self.built += 1;
            if self.calcs.len() > 48 {
                self.calcs.clear();
            }
            self.calcs.insert(cfg.clone(), c);
        }
        self.calcs.get(cfg).unwrap()
    }
    pub fn fresh(&mut self, cfg: &Cfg) -> SmartCalc {
        self.built += 1;
        seam::guarded(|| cfg.build()).expect("SmartCalc::default() panicked").expect("configuration rejected")
    }
}

pub trait Prop: Sync {
    type Case: Serialize + DeserializeOwned + Send + Sync + Clone + 'static;
    fn id(&self) -> &'static str;
    fn families(&self, tier: Tier) -> Vec<Family<Self::Case>>;
    /// merged breadth-first layers over operation histories (explicit-state search; see explore::Bfs)
    fn bfs_layers(&self, _tier: Tier) -> Vec<Bfs<Self::Case>> {
        Vec::new()
    }
    fn exec(&self, ctx: &mut Ctx, case: &Self::Case) -> Verdict;
    /// how cases are enumerated and what makes one non-trivial
    fn rule(&self) -> String;
    fn assumptions(&self) -> Vec<String> {
        Vec::new()
    }
    /// named defect models for known findings: does `v` show exactly the known-wrong behaviour?
    fn defect_model(&self, _name: &str, _case: &Self::Case, _v: &Verdict) -> bool {
        false
    }
    /// vacuity guard: a run with fewer distinct observed outcomes is a machinery failure
    fn min_outcomes(&self, _tier: Tier) -> u64 {
        8
    }
    /// time cap for the generator in seconds (0 = none)
    fn time_cap(&self, tier: Tier) -> f64 {
        tier.pick(100.0, 2400.0)
    }
}

pub fn common_assumptions() -> Vec<String> {
    vec![
        "wall clock owned by the harness: the executable defines clock_gettime; CLOCK_REALTIME answers a frozen, harness-chosen instant (default 2026-03-15T12:00:00Z)".into(),
        "process time zone pinned to TZ=UTC (chrono::Local is consulted inside time_with_timezone)".into(),
        "smartcalc built from /repo's working tree as a path dependency with opt-level 2, overflow checks and debug assertions on, panic=unwind".into(),
        "only the public API is driven (SmartCalc, Session, ExecuteLine, DataItem::as_token_type)".into(),
        "log facade pre-empted with a no-op logger".into(),
    ]
}

fn verif_dir() -> std::path::PathBuf {
    std::env::var("VERIF_DIR").map(std::path::PathBuf::from).unwrap_or_else(|_| std::path::PathBuf::from("/verif"))
}

fn write_replay<P: Prop>(p: &P, n: usize, v: &Violation<P::Case>) -> String {
    let dir = verif_dir().join("replays");
    let _ = std::fs::create_dir_all(&dir);
    let path = dir.join(format!("run-{}-{:03}.json", p.id(), n));
    let j = serde_json::json!({
        "property": p.id(),
        "family": v.family,
        "case": serde_json::to_value(&v.case).unwrap(),
        "input": v.verdict.input,
        "expected": v.verdict.expected,
        "observed": v.verdict.observed,
        "violation": v.verdict.violation,
        "site": v.verdict.site,
    });
    std::fs::write(&path, serde_json::to_string_pretty(&j).unwrap()).expect("cannot write replay file");
    path.to_string_lossy().to_string()
}

/// Re-run one case on a fresh context in a fresh thread.
fn rerun<P: Prop>(p: &P, case: &P::Case) -> Verdict {
    std::thread::scope(|s| {
        std::thread::Builder::new()
            .stack_size(64 << 20)
            .spawn_scoped(s, || {
                let mut ctx = Ctx::new();
                p.exec(&mut ctx, case)
            })
            .unwrap()
            .join()
            .expect("replay thread died")
    })
}

fn matches_finding<P: Prop>(p: &P, f: &Finding, v: &Violation<P::Case>) -> bool {
    if f.property != p.id() {
        return false;
    }
    let m = &f.matcher;
    if let Some(re) = &m.family {
        if !re.is_match(&v.family) {
            return false;
        }
    }
    if let Some(re) = &m.input {
        if !re.is_match(&v.verdict.input) {
            return false;
        }
    }
    if let Some(site) = &m.site {
        match &v.verdict.site {
            Some(s) if s == site => {}
            _ => return false,
        }
    }
    if let Some(re) = &m.observed {
        if !re.is_match(&v.verdict.observed) {
            return false;
        }
    }
    if let Some(re) = &m.violation {
        if !re.is_match(v.verdict.violation.as_deref().unwrap_or("")) {
            return false;
        }
    }
    if let Some(model) = &m.model {
        if !p.defect_model(model, &v.case, &v.verdict) {
            return false;
        }
    }
    // an entry without any discriminating half would swallow everything: refuse it
    m.input.is_some() || m.site.is_some() || m.model.is_some() || m.observed.is_some()
}

pub fn run_prop<P: Prop>(p: &P, tier: Tier, seed: u64) -> i32 {
    let t0 = seam::real_now();
    let id = p.id();
    let findings = match kf::load(&verif_dir().join("known_findings.json")) {
        Ok(f) => f,
        Err(e) => {
            eprintln!("MACHINERY: cannot load known_findings.json: {}", e);
            return 2;
        }
    };

    // determinism self-test of the clock seam
    if let Err(e) = crate::selftest::clock_seam() {
        eprintln!("MACHINERY: clock seam self-test failed: {}", e);
        return 2;
    }

    if let Err(e) = crate::model::calendar::self_check() {
        eprintln!("MACHINERY: calendar model self-check failed: {}", e);
        return 2;
    }
    let mut families = p.families(tier);
    let mut layers = p.bfs_layers(tier);
    if let Ok(only) = std::env::var("VERIF_FAMILY") {
        // debugging aid only: restrict to some families (never used by registered commands)
        families.retain(|f| only.split(',').any(|o| o == f.name));
        layers.retain(|f| only.split(',').any(|o| o == f.name));
    }
    let limits = Limits { time_cap_s: p.time_cap(tier), horizon_s: 30.0 };
    let hang_id = id.to_string();
    let stats = explore::run(
        families,
        layers,
        &limits,
        seed,
        Ctx::new,
        |ctx, case| p.exec(ctx, case),
        |ctx| ctx.built,
        |c| serde_json::to_value(c).unwrap(),
        move |what| {
            // A case that does not return within the horizon: non-termination is a violation of
            // totality; the thread cannot be recovered, so report and leave.
            let dir = verif_dir().join("replays");
            let _ = std::fs::create_dir_all(&dir);
            let path = dir.join(format!("run-{}-hang.json", hang_id));
            let _ = std::fs::write(&path, format!("{{\"property\":\"{}\",\"family\":\"?\",\"hang\":true,\"case\":{}}}", hang_id, what));
            println!("VIOLATION property={} replay={}", hang_id, path.to_string_lossy());
            println!("  case did not return within 30 s: {}", what);
            std::process::exit(1);
        },
        |v| findings.iter().find(|f| matches_finding(p, f, v)).map(|f| f.id.clone()),
    );

    // ---- triage (known findings were matched when each violation was found) ----
    let mut known_hits: BTreeMap<String, (u64, String)> = BTreeMap::new();
    for (fid, n) in stats.known.iter() {
        let what = findings.iter().find(|f| &f.id == fid).map(|f| f.what.clone()).unwrap_or_default();
        known_hits.insert(fid.clone(), (*n, what));
    }
    let unknown: Vec<&Violation<P::Case>> = stats.violations.iter().collect();
    let unknown_total = stats.unknown_total;

    // ---- confirm unknown violations on a fresh calculator, twice ----
    let mut machinery_error = false;
    let mut unreproducible = 0usize;
    let mut reported = 0usize;
    let mut seen_sig: std::collections::HashSet<String> = Default::default();
    for v in unknown.iter() {
        // group by (violation text up to ':' , site) to keep the report readable
        let sig = format!("{}|{}|{}", v.family, v.verdict.site.clone().unwrap_or_default(), v.verdict.violation.clone().unwrap_or_default().split(':').next().unwrap_or("").to_string());
        let first_of_kind = seen_sig.insert(sig);
        if reported >= 40 || (!first_of_kind && reported >= 12) {
            continue;
        }
        let a = rerun(p, &v.case);
        let b = rerun(p, &v.case);
        if a.violation.is_none() || b.violation.is_none() || a.observed != b.observed {
            // The case failed on a calculator that had evaluated other cases before and holds on a
            // fresh one: either the harness is not deterministic or evaluation changed the
            // calculator (C04's subject).  It is never reported as a violation of this property;
            // it is a machinery exit unless another violation of this run is confirmed.
            eprintln!(
                "NOTE: a violation was not reproducible on a fresh calculator (input {:?}): first {:?} / replay {:?} / replay {:?}",
                v.verdict.input, v.verdict.observed, a.observed, b.observed
            );
            unreproducible += 1;
            continue;
        }
        let path = write_replay(p, reported, v);
        println!("VIOLATION property={} replay={}", id, path);
        println!("  family={} input={:?}", v.family, v.verdict.input);
        println!("  what: {}", v.verdict.violation.clone().unwrap_or_default());
        println!("  expected: {}", v.verdict.expected);
        println!("  observed: {}", v.verdict.observed);
        reported += 1;
    }
    if unreproducible > 0 && reported == 0 {
        eprintln!("MACHINERY: {} violation(s) seen on a re-used calculator, none reproducible on a fresh one", unreproducible);
        machinery_error = true;
    }
    // full list of unlisted violations of this run for triage (inputs only, one per line)
    {
        let dir = verif_dir().join("replays");
        let _ = std::fs::create_dir_all(&dir);
        let mut all = String::new();
        for v in unknown.iter() {
            all.push_str(&format!("{}\t{}\t{}\t{}\t{}\n", v.family, v.verdict.input.replace('\n', "\\n"), v.verdict.violation.clone().unwrap_or_default(), v.verdict.observed.replace('\n', "\\n"), v.verdict.expected.replace('\n', "\\n")));
        }
        let _ = std::fs::write(dir.join(format!("run-{}-all.tsv", id)), all);
    }
    if unknown_total as usize > reported {
        println!("  ... {} unlisted violations in total, by kind (family|site|what):", unknown_total);
        for (sig, n) in stats.buckets.iter() {
            println!("      {:>8}  {}", n, sig);
        }
    }
    for (fid, (n, what)) in known_hits.iter() {
        println!("KNOWN-FINDING: property={} {} [{}; {} cases]", id, what, fid, n);
    }

    // ---- vacuity guard ----
    let total_exec: u64 = stats.families.iter().map(|f| f.executions).sum();
    if total_exec == 0 || stats.distinct_outcomes < p.min_outcomes(tier) {
        eprintln!("MACHINERY: vacuous run ({} executions, {} distinct outcomes)", total_exec, stats.distinct_outcomes);
        machinery_error = true;
    }
    let caps = stats.caps_hit.clone();

    // ---- evidence ----
    let states: u64 = stats.families.iter().map(|f| f.states).sum();
    let transitions: u64 = stats.families.iter().map(|f| f.transitions).sum();
    // the flag speaks about the un-merged families (a merged layer is a depth extension and is
    // reported with its own "completed" / "merged" fields)
    let exhaustive = stats.families.iter().filter(|f| !f.merged).all(|f| f.exhaustive);
    let mut samples = stats.samples.clone();
    if samples.len() > 12 {
        let step = samples.len() / 6;
        let mut keep = Vec::new();
        for (i, s) in samples.iter().enumerate() {
            if i < 2 || i % step == 0 || i + 1 == samples.len() {
                keep.push(s.clone());
            }
        }
        samples = keep;
    }
    let mut assumptions = common_assumptions();
    assumptions.extend(p.assumptions());
    let ev = serde_json::json!({
        "property_id": id,
        "tier": tier.name(),
        "seed": seed,
        "level": "model_checking",
        "wall_s": seam::real_now() - t0,
        "violations": unknown_total,
        "coverage": {
            "states": states.max(1),
            "transitions": transitions.max(1),
            "traces_validated_against_impl": stats.compared,
            "executions": total_exec,
            "evaluations": stats.evaluations.max(1),
            "distinct_nontrivial": stats.distinct_compared,
            "distinct_inputs": stats.distinct_inputs,
            "distinct_outcomes": stats.distinct_outcomes,
            "rule": p.rule(),
            "exhaustive": exhaustive,
            "families": stats.families.iter().map(|f| serde_json::json!({
                "name": f.name, "mode": f.mode, "bounds": f.bounds, "states": f.states, "transitions": f.transitions,
                "executions": f.executions, "pruned_by_generator": f.pruned, "completed": f.exhaustive, "merged": f.merged, "wall_s": f.wall_s
            })).collect::<Vec<_>>(),
            "oracle_classes": stats.classes,
            "calculators_built": stats.calculators_built,
            "caps_hit": caps,
            "known_findings_hit": known_hits.iter().map(|(k, (n, _))| serde_json::json!({"id": k, "cases": n})).collect::<Vec<_>>(),
            "unlisted_violation_kinds": stats.buckets,
            "violations_total_incl_known": stats.violations_total,
            "threads": explore::threads(),
            "samples": samples,
        },
        "assumptions": assumptions,
    });
    let evdir = verif_dir().join("evidence");
    let _ = std::fs::create_dir_all(&evdir);
    let evpath = evdir.join(format!("{}.json", id));
    if let Err(e) = std::fs::write(&evpath, serde_json::to_string_pretty(&ev).unwrap()) {
        eprintln!("MACHINERY: cannot write evidence: {}", e);
        return 2;
    }

    println!(
        "{} {}: states={} transitions={} executions={} evaluations={} compared={} distinct_compared={} outcomes={} violations={} (known {}), exhaustive={}, {:.1}s",
        id,
        tier.name(),
        states,
        transitions,
        total_exec,
        stats.evaluations,
        stats.compared,
        stats.distinct_compared,
        stats.distinct_outcomes,
        unknown_total,
        stats.violations_total - unknown_total,
        exhaustive,
        seam::real_now() - t0
    );
    for f in stats.families.iter() {
        println!("  family {:<28} {:>10} exec {:>10} states  {:>7.1}s  {}", f.name, f.executions, f.states, f.wall_s, f.bounds);
    }
    println!("  oracle classes: {:?}", stats.classes);

    if machinery_error {
        return 2;
    }
    if unknown_total > 0 {
        // at least one of them was confirmed on a fresh calculator (otherwise machinery_error)
        return 1;
    }
    0
}

pub fn replay_prop<P: Prop>(p: &P, path: &str) -> i32 {
    let text = match std::fs::read_to_string(path) {
        Ok(t) => t,
        Err(e) => {
            eprintln!("MACHINERY: cannot read {}: {}", path, e);
            return 2;
        }
    };
    let j: serde_json::Value = match serde_json::from_str(&text) {
        Ok(j) => j,
        Err(e) => {
            eprintln!("MACHINERY: bad replay file: {}", e);
            return 2;
        }
    };
    let case: P::Case = match serde_json::from_value(j["case"].clone()) {
        Ok(c) => c,
        Err(e) => {
            eprintln!("MACHINERY: replay case does not deserialize: {}", e);
            return 2;
        }
    };
    let a = rerun(p, &case);
    let b = rerun(p, &case);
    println!("replay {} (fresh calculator, twice, no explorer)", path);
    println!("  input:    {}", a.input);
    println!("  class:    {}", a.class);
    println!("  expected: {}", a.expected);
    println!("  observed: {}", a.observed);
    if a.observed != b.observed {
        eprintln!("MACHINERY: two replays differ: {:?} vs {:?}", a.observed, b.observed);
        return 2;
    }
    match a.violation {
        Some(w) => {
            println!("  what:     {}", w);
            println!("VIOLATION property={} replay={}", p.id(), path);
            1
        }
        None => {
            println!("  holds on this case");
            0
        }
    }
}
