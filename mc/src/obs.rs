//! One evaluation through the public API -> an observation record.

use crate::seam::{self, PanicInfo};
use chrono::Datelike;
use smartcalc::{NumberType, Session, SmartCalc, SmartCalcAstType, TokenType};
use serde::{Deserialize, Serialize};
use std::fmt::Write;

#[derive(Clone, Copy, Debug, PartialEq, Eq, Serialize, Deserialize)]
pub enum Base {
    Dec,
    Oct,
    Hex,
    Bin,
    Raw,
}

#[derive(Clone, Debug, PartialEq, Serialize, Deserialize)]
pub enum Val {
    Number(f64, Base),
    Percent(f64),
    Money(f64, String),
    /// whole seconds (+ sub-second nanos, always 0 in practice)
    Duration(i64),
    Time { utc: i64, zone: String, off: i32 },
    Date { y: i32, m: u32, d: u32, zone: String, off: i32 },
    DateTime { utc: i64, zone: String, off: i32 },
    Unit(f64, String, usize),
    /// a result whose AST is not a value item (None, Month, Symbol ...)
    NoValue(String),
}

#[derive(Clone, Debug, PartialEq)]
pub enum Slot {
    Empty,
    Ok { out: String, val: Val },
    Err(String),
}

pub type Ui = Vec<(usize, usize, String)>;

#[derive(Clone, Debug, PartialEq)]
pub struct Obs {
    pub status: bool,
    pub slots: Vec<Slot>,
    pub ui: Vec<Ui>,
}

#[derive(Clone, Debug)]
pub enum Run {
    Done(Obs),
    Panic(PanicInfo),
}

pub fn base_name(t: NumberType) -> Base {
    match t {
        NumberType::Decimal => Base::Dec,
        NumberType::Octal => Base::Oct,
        NumberType::Hexadecimal => Base::Hex,
        NumberType::Binary => Base::Bin,
        NumberType::Raw => Base::Raw,
    }
}

pub fn val_of_token(t: &TokenType) -> Val {
    match t {
        TokenType::Number(n, b) => Val::Number(*n, base_name(*b)),
        TokenType::Percent(p) => Val::Percent(*p),
        TokenType::Money(a, c) => Val::Money(*a, c.code.clone()),
        TokenType::Duration(d) => Val::Duration(d.num_seconds()),
        TokenType::Time(t, z) => Val::Time { utc: t.and_utc().timestamp(), zone: z.name.clone(), off: z.offset },
        TokenType::Date(d, z) => Val::Date { y: d.year(), m: d.month(), d: d.day(), zone: z.name.clone(), off: z.offset },
        TokenType::DateTime(t, z) => Val::DateTime { utc: t.and_utc().timestamp(), zone: z.name.clone(), off: z.offset },
        TokenType::DynamicType(n, dt) => Val::Unit(*n, dt.group_name.clone(), dt.index),
        other => Val::NoValue(other.type_name()),
    }
}

pub fn val_of_ast(ast: &SmartCalcAstType) -> Val {
    match ast {
        SmartCalcAstType::Item(item) => val_of_token(&item.as_token_type()),
        other => Val::NoValue(other.type_name()),
    }
}

fn convert(res: er::ExecRes) -> Obs {
    let mut slots = Vec::with_capacity(res.lines.len());
    let mut ui = Vec::with_capacity(res.lines.len());
    for line in res.lines.iter() {
        match line {
            None => {
                slots.push(Slot::Empty);
                ui.push(Vec::new());
            }
            Some(l) => {
                ui.push(l.ui_tokens.iter().map(|t| (t.start, t.end, format!("{:?}", t.ui_type))).collect());
                match &l.result {
                    Ok(r) => slots.push(Slot::Ok { out: r.output.clone(), val: val_of_ast(&r.ast) }),
                    Err(e) => slots.push(Slot::Err(e.clone())),
                }
            }
        }
    }
    Obs { status: res.status, slots, ui }
}

mod er {
    // `SmartCalc::execute` returns `smartcalc::smartcalc::ExecuteResult`, whose module is private;
    // a type alias cannot name it, so wrap the call sites generically instead (see eval()).
    pub struct ExecRes {
        pub status: bool,
        pub lines: Vec<Option<Line>>,
    }
    pub struct Line {
        pub result: Result<LineOk, String>,
        pub ui_tokens: Vec<smartcalc::UiToken>,
    }
    pub struct LineOk {
        pub output: String,
        pub ast: std::rc::Rc<smartcalc::SmartCalcAstType>,
    }
}

macro_rules! lift {
    ($res:expr) => {{
        let res = $res;
        er::ExecRes {
            status: res.status,
            lines: res
                .lines
                .into_iter()
                .map(|l| {
                    l.map(|l| er::Line {
                        result: match l.result {
                            Ok(r) => Ok(er::LineOk { output: r.output, ast: r.ast }),
                            Err(e) => Err(e),
                        },
                        ui_tokens: l.ui_tokens,
                    })
                })
                .collect(),
        }
    }};
}

/// Evaluate `text` with a fresh internal session (`SmartCalc::execute`).
pub fn eval(calc: &SmartCalc, lang: &str, text: &str) -> Run {
    match seam::guarded(|| lift!(calc.execute(lang, text))) {
        Ok(r) => Run::Done(convert(r)),
        Err(p) => Run::Panic(p),
    }
}

/// `session.set_text(text); calc.execute_session(&session)`.
pub fn eval_session(calc: &SmartCalc, session: &mut Session, text: Option<&str>) -> Run {
    match seam::guarded(|| {
        if let Some(t) = text {
            session.set_text(t.to_string());
        }
        lift!(calc.execute_session(session))
    }) {
        Ok(r) => Run::Done(convert(r)),
        Err(p) => Run::Panic(p),
    }
}

impl Val {
    pub fn kind(&self) -> &'static str {
        match self {
            Val::Number(..) => "number",
            Val::Percent(..) => "percent",
            Val::Money(..) => "money",
            Val::Duration(..) => "duration",
            Val::Time { .. } => "time",
            Val::Date { .. } => "date",
            Val::DateTime { .. } => "datetime",
            Val::Unit(..) => "unit",
            Val::NoValue(..) => "novalue",
        }
    }
}

impl Run {
    /// The single slot of a one-line evaluation (None if the shape is different).
    pub fn single(&self) -> Option<&Slot> {
        match self {
            Run::Done(o) if o.slots.len() == 1 => Some(&o.slots[0]),
            _ => None,
        }
    }
    /// the last slot of a completed run (the line under test of a multi-line text)
    pub fn last(&self) -> Option<&Slot> {
        match self {
            Run::Done(o) if o.status => o.slots.last(),
            _ => None,
        }
    }
    pub fn brief(&self) -> String {
        match self {
            Run::Panic(p) => format!("PANIC[{}] {} @{}", p.site, p.message, p.location),
            Run::Done(o) => {
                let mut s = String::new();
                if !o.status {
                    s.push_str("status=false ");
                }
                for (i, sl) in o.slots.iter().enumerate() {
                    if i > 0 {
                        s.push_str(" | ");
                    }
                    match sl {
                        Slot::Empty => s.push_str("-"),
                        Slot::Err(e) => {
                            let _ = write!(s, "ERR({})", e);
                        }
                        Slot::Ok { out, val } => {
                            let _ = write!(s, "{:?} => {:?}", out, val);
                        }
                    }
                }
                s
            }
        }
    }
}

pub fn close(a: f64, b: f64, rel: f64) -> bool {
    if a == b {
        return true;
    }
    if a.is_nan() || b.is_nan() {
        return a.is_nan() && b.is_nan();
    }
    if a.is_infinite() || b.is_infinite() {
        // a == b was handled above: an infinity is close to nothing else
        return false;
    }
    let d = (a - b).abs();
    let m = a.abs().max(b.abs());
    d <= rel * m || d <= 1e-12
}

/// Value equality with a relative float tolerance; everything non-float is exact.
pub fn val_close(a: &Val, b: &Val, rel: f64) -> bool {
    match (a, b) {
        (Val::Number(x, bx), Val::Number(y, by)) => bx == by && close(*x, *y, rel),
        (Val::Percent(x), Val::Percent(y)) => close(*x, *y, rel),
        (Val::Money(x, cx), Val::Money(y, cy)) => cx == cy && close(*x, *y, rel),
        (Val::Unit(x, gx, ix), Val::Unit(y, gy, iy)) => gx == gy && ix == iy && close(*x, *y, rel),
        _ => a == b,
    }
}
