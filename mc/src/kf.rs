//! Known findings: committed in /verif/known_findings.json, never written at run time.
//!
//! An entry suppresses a violation only if *every* half it states matches: the input class
//! (regex over the canonical input, optionally the family) and the defect signature (panic
//! site, regex over the observation / violation text, or a named defect model that recomputes
//! the known-wrong value).  The same input failing differently, or a different input failing
//! the same way outside the class, is still reported.

use regex::Regex;

pub struct Matcher {
    pub family: Option<Regex>,
    pub input: Option<Regex>,
    pub site: Option<String>,
    pub observed: Option<Regex>,
    pub violation: Option<Regex>,
    pub model: Option<String>,
}

pub struct Finding {
    pub property: String,
    pub id: String,
    pub what: String,
    pub matcher: Matcher,
}

fn re(v: &serde_json::Value, key: &str) -> Result<Option<Regex>, String> {
    match v.get(key) {
        None | Some(serde_json::Value::Null) => Ok(None),
        Some(serde_json::Value::String(s)) => Regex::new(s).map(Some).map_err(|e| format!("bad regex in {}: {}", key, e)),
        Some(_) => Err(format!("{} must be a string", key)),
    }
}

pub fn load(path: &std::path::Path) -> Result<Vec<Finding>, String> {
    let text = match std::fs::read_to_string(path) {
        Ok(t) => t,
        Err(_) => return Ok(Vec::new()),
    };
    let j: serde_json::Value = serde_json::from_str(&text).map_err(|e| e.to_string())?;
    let mut out = Vec::new();
    for f in j.get("findings").and_then(|f| f.as_array()).cloned().unwrap_or_default() {
        let m = f.get("match").cloned().unwrap_or(serde_json::Value::Null);
        out.push(Finding {
            property: f["property"].as_str().ok_or("finding without property")?.to_string(),
            id: f["id"].as_str().ok_or("finding without id")?.to_string(),
            what: f["what"].as_str().ok_or("finding without what")?.to_string(),
            matcher: Matcher {
                family: re(&m, "family")?,
                input: re(&m, "input")?,
                site: m.get("site").and_then(|s| s.as_str()).map(|s| s.to_string()),
                observed: re(&m, "observed")?,
                violation: re(&m, "violation")?,
                model: m.get("model").and_then(|s| s.as_str()).map(|s| s.to_string()),
            },
        });
    }
    Ok(out)
}
