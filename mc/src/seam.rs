//! Seams: everything that could make two runs of the same case differ is owned here.
//!
//! * wall clock  -> `clock_gettime` is defined by this executable; CLOCK_REALTIME answers a
//!   per-thread frozen instant chosen by the harness, every other clock goes to the kernel.
//! * process TZ  -> pinned to UTC before anything else runs.
//! * log facade  -> a no-op logger is installed first, so smartcalc's own `set_logger` loses.
//! * panics      -> a hook records message, location and the innermost smartcalc frame
//!   ("site") into a thread-local slot; nothing is printed.

use std::cell::{Cell, RefCell};
use std::collections::HashMap;
use std::sync::Mutex;

#[repr(C)]
pub struct Timespec {
    pub tv_sec: i64,
    pub tv_nsec: i64,
}

extern "C" {
    fn syscall(num: i64, ...) -> i64;
}

const SYS_CLOCK_GETTIME: i64 = 228; // x86_64
const CLOCK_REALTIME: i32 = 0;
const CLOCK_REALTIME_COARSE: i32 = 5;

/// 2026-03-15T12:00:00Z
pub const DEFAULT_NOW: i64 = 1_773_576_000;

thread_local! {
    static FAKE_NOW: Cell<i64> = const { Cell::new(DEFAULT_NOW) };
    static SEAM_ON: Cell<bool> = const { Cell::new(true) };
}

/// The interposed libc symbol. std's `SystemTime::now()` (hence chrono's `Utc::now()`)
/// resolves to this definition because the executable's own symbols win over libc's.
#[no_mangle]
pub unsafe extern "C" fn clock_gettime(clk: i32, ts: *mut Timespec) -> i32 {
    if clk == CLOCK_REALTIME || clk == CLOCK_REALTIME_COARSE {
        let on = SEAM_ON.try_with(|c| c.get()).unwrap_or(false);
        if on {
            let now = FAKE_NOW.try_with(|c| c.get()).unwrap_or(DEFAULT_NOW);
            if !ts.is_null() {
                (*ts).tv_sec = now;
                (*ts).tv_nsec = 0;
            }
            return 0;
        }
    }
    syscall(SYS_CLOCK_GETTIME, clk as i64, ts) as i32
}

pub fn set_now(epoch_secs: i64) {
    FAKE_NOW.with(|c| c.set(epoch_secs));
}

pub fn get_now() -> i64 {
    FAKE_NOW.with(|c| c.get())
}

#[allow(dead_code)]
pub fn seam_enabled(on: bool) {
    SEAM_ON.with(|c| c.set(on));
}

/// Real wall clock (bypasses the seam) for evidence timestamps.
pub fn real_now() -> f64 {
    let mut ts = Timespec { tv_sec: 0, tv_nsec: 0 };
    unsafe { syscall(SYS_CLOCK_GETTIME, 1i64 /* MONOTONIC */, &mut ts as *mut Timespec) };
    ts.tv_sec as f64 + ts.tv_nsec as f64 * 1e-9
}

struct NopLogger;
impl log::Log for NopLogger {
    fn enabled(&self, _: &log::Metadata) -> bool {
        false
    }
    fn log(&self, _: &log::Record) {}
    fn flush(&self) {}
}
static NOP: NopLogger = NopLogger;

#[derive(Clone, Debug, Default)]
pub struct PanicInfo {
    pub message: String,
    pub location: String,
    /// innermost frame inside /repo/src, e.g. "src/compiler/date.rs:79"
    pub site: String,
}

thread_local! {
    static LAST_PANIC: RefCell<Option<PanicInfo>> = const { RefCell::new(None) };
    static QUIET: Cell<bool> = const { Cell::new(false) };
}

// ---- cheap backtrace keys -------------------------------------------------------------
// Resolving a std::backtrace::Backtrace takes a global lock and symbolises ~40 frames.
// We key a cache by the raw return addresses (collected with the unwinder directly) so that
// each distinct panic path is symbolised once.

#[repr(C)]
struct UnwindContext {
    _private: [u8; 0],
}
type UnwindTraceFn = extern "C" fn(ctx: *mut UnwindContext, arg: *mut core::ffi::c_void) -> i32;
extern "C" {
    fn _Unwind_Backtrace(trace: UnwindTraceFn, arg: *mut core::ffi::c_void) -> i32;
    fn _Unwind_GetIP(ctx: *mut UnwindContext) -> usize;
}

extern "C" fn collect_ip(ctx: *mut UnwindContext, arg: *mut core::ffi::c_void) -> i32 {
    let v = unsafe { &mut *(arg as *mut Vec<usize>) };
    let ip = unsafe { _Unwind_GetIP(ctx) };
    v.push(ip);
    if v.len() >= 96 {
        return 5; // _URC_END_OF_STACK
    }
    0
}

static SITE_CACHE: Mutex<Option<HashMap<Vec<usize>, String>>> = Mutex::new(None);

/// "<repo>/src/" : prefix of the library's own source files in panic locations and backtraces
fn repo_src() -> String {
    format!("{}/src/", std::env::var("REPO_DIR").unwrap_or_else(|_| "/repo".to_string()).trim_end_matches('/'))
}

fn site_from_backtrace_text(bt: &str) -> String {
    let marker = repo_src();
    // Lines look like:
    //   12: smartcalc::compiler::date::...
    //              at /repo/src/compiler/date.rs:79:36
    for line in bt.lines() {
        let l = line.trim_start();
        if let Some(rest) = l.strip_prefix("at ") {
            if let Some(idx) = rest.find(&marker) {
                let p = &rest[idx + marker.len() - "src/".len()..];
                // drop the column
                let mut parts = p.rsplitn(2, ':');
                let _col = parts.next();
                if let Some(file_line) = parts.next() {
                    return file_line.to_string();
                }
                return p.to_string();
            }
        }
    }
    String::from("?")
}

fn current_site() -> String {
    let mut ips: Vec<usize> = Vec::with_capacity(96);
    unsafe {
        _Unwind_Backtrace(collect_ip, &mut ips as *mut Vec<usize> as *mut core::ffi::c_void);
    }
    {
        let g = SITE_CACHE.lock().unwrap_or_else(|e| e.into_inner());
        if let Some(m) = g.as_ref() {
            if let Some(s) = m.get(&ips) {
                return s.clone();
            }
        }
    }
    let bt = std::backtrace::Backtrace::force_capture();
    let text = format!("{}", bt);
    let site = site_from_backtrace_text(&text);
    let mut g = SITE_CACHE.lock().unwrap_or_else(|e| e.into_inner());
    g.get_or_insert_with(HashMap::new).insert(ips, site.clone());
    site
}

pub fn init() {
    // TZ first: chrono::Local is consulted inside time_with_timezone.
    std::env::set_var("TZ", "UTC");
    let _ = log::set_logger(&NOP);
    log::set_max_level(log::LevelFilter::Off);
    std::panic::set_hook(Box::new(|info| {
        let message = if let Some(s) = info.payload().downcast_ref::<&str>() {
            s.to_string()
        } else if let Some(s) = info.payload().downcast_ref::<String>() {
            s.clone()
        } else {
            "<non-string panic>".to_string()
        };
        let location = info
            .location()
            .map(|l| format!("{}:{}", l.file(), l.line()))
            .unwrap_or_default();
        let quiet = QUIET.try_with(|q| q.get()).unwrap_or(false);
        if quiet {
            // a panic raised by the library's own code (arithmetic overflow, index, unwrap) names
            // its site directly; a panic raised inside a dependency (chrono ...) is attributed
            // to the innermost library frame of the backtrace
            let site = match info.location() {
                Some(l) if l.file().contains(&repo_src()) => {
                    let f = l.file();
                    let m = repo_src();
                    let i = f.find(&m).unwrap() + m.len() - "src/".len();
                    format!("{}:{}", &f[i..], l.line())
                }
                _ => current_site(),
            };
            let _ = LAST_PANIC.try_with(|p| {
                *p.borrow_mut() = Some(PanicInfo { message, location, site });
            });
        } else {
            eprintln!("harness panic: {} at {}", message, location);
            eprintln!("{}", std::backtrace::Backtrace::force_capture());
        }
    }));
}

/// Run `f` with panics turned into values.
pub fn guarded<T>(f: impl FnOnce() -> T) -> Result<T, PanicInfo> {
    QUIET.with(|q| q.set(true));
    LAST_PANIC.with(|p| *p.borrow_mut() = None);
    let r = std::panic::catch_unwind(std::panic::AssertUnwindSafe(f));
    QUIET.with(|q| q.set(false));
    match r {
        Ok(v) => Ok(v),
        Err(_) => Err(LAST_PANIC
            .with(|p| p.borrow_mut().take())
            .unwrap_or_else(|| PanicInfo { message: "<lost>".into(), location: String::new(), site: "?".into() })),
    }
}
