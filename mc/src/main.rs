mod corpus;
mod explore;
mod kf;
mod lit;
mod model;
mod obs;
mod props;
mod runner;
mod seam;
mod selftest;
mod spec;

use runner::Tier;

fn usage() -> ! {
    eprintln!("usage: mc <C01..C19> <quick|thorough> | mc <id> --replay <file> | mc probe <lang> <text>...");
    std::process::exit(2);
}

fn main() {
    seam::init();
    let args: Vec<String> = std::env::args().collect();
    if args.len() < 3 {
        usage();
    }
    let id = args[1].as_str();
    if id == "probe" {
        // MC_CFG='{"dec":".","thou":","}' selects a configuration (runner::Cfg as JSON)
        let cfg: runner::Cfg = std::env::var("MC_CFG").ok().map(|j| serde_json::from_str(&j).expect("MC_CFG is not a Cfg")).unwrap_or_default();
        let calc = cfg.build().expect("configuration rejected");
        for t in &args[3..] {
            let t = &t.replace("\\n", "\n");
            let r = obs::eval(&calc, &args[2], t);
            println!("{:?} -> {}", t, r.brief());
            if let obs::Run::Done(o) = &r {
                println!("    ui: {:?}", o.ui);
            }
        }
        return;
    }
    let seed: u64 = std::env::var("VERIF_SEED").ok().and_then(|s| s.parse().ok()).unwrap_or(0);
    let code = if args[2] == "--replay" {
        if args.len() < 4 {
            usage();
        }
        props::replay(id, &args[3])
    } else {
        let tier = match args[2].as_str() {
            "quick" => Tier::Quick,
            "thorough" => Tier::Thorough,
            _ => usage(),
        };
        props::run(id, tier, seed)
    };
    std::process::exit(code);
}
